#!/usr/bin/env python3
"""Feasibility probe for E2: parse the MIR of VirtQueue::add from `-Zunpretty=mir` output and ask z3
whether a path exists on which the avail.idx store is not preceded by all device-visible stores and a
fence, or is followed by one.  Throw-away; not the machinery."""
import re, sys
from z3 import Bool, Int, Solver, And, Or, Not, Implies, If, Sum, sat

txt = open(sys.argv[1]).read()
fn = sys.argv[2] if len(sys.argv) > 2 else 'add'
m = re.search(r'^fn queue::<impl at src/queue\.rs:\d+:\d+: \d+:\d+>::%s\(.*?^}' % re.escape(fn), txt, re.S | re.M)
body = m.group(0)
blocks = {}
for bm in re.finditer(r'^    (bb\d+)(?: \(cleanup\))?: \{\n(.*?)^    \}', body, re.S | re.M):
    blocks[bm.group(1)] = [l.strip() for l in bm.group(2).splitlines() if l.strip()]

# provenance: locals holding device pointers
devptr = {}      # local -> 'avail' | 'desc'
src = {}
for b, ls in blocks.items():
    for l in ls:
        mm = re.match(r'(_\d+) = copy \(\(\*_1\)\.\d+: core::ptr::NonNull<(.*)>\);', l)
        if mm:
            ty = mm.group(2)
            if 'AvailRing' in ty: src[mm.group(1)] = 'avail'
            elif 'Descriptor' in ty: src[mm.group(1)] = 'desc'
        mm = re.match(r'(_\d+) = NonNull::<.*>::as_ptr\(move (_\d+)\)', l)
        if mm and mm.group(2) in src:
            devptr[mm.group(1)] = src[mm.group(2)]
# references into device memory (e.g. &((*_45).1: Atomic<u16>))
devref = {}
for b, ls in blocks.items():
    for l in ls:
        mm = re.match(r'(_\d+) = &(?:mut )?\(\(\*(_\d+)\)\.(\d+): (.*)\);', l)
        if mm and mm.group(2) in devptr:
            devref[mm.group(1)] = (devptr[mm.group(2)], int(mm.group(3)), mm.group(4))

ev = {}   # block -> list of events in order
succ = {}
for b, ls in blocks.items():
    e = []
    for l in ls:
        mm = re.match(r'\(\(\*(_\d+)\)\.(\d+): .*?\)(\[.*?\])? = ', l) or re.match(r'\(\*(_\d+)\)(\[.*?\]) = ', l)
        if mm and mm.group(1) in devptr:
            e.append(('DEVSTORE', l))
        if re.search(r'= VirtQueue::<H, SIZE>::(add_direct|add_indirect|write_desc)\(', l):
            e.append(('DEVSTORE', l))
        if re.search(r'= fence\(', l) or re.search(r'atomic::fence\(', l):
            e.append(('FENCE', l))
        mm = re.search(r'Atomic::<u16>::store\(move (_\d+),', l)
        if mm and mm.group(1) in devref and devref[mm.group(1)][0] == 'avail':
            e.append(('IDXSTORE', l))
    ev[b] = e
    t = ls[-1]
    succ[b] = re.findall(r'bb\d+', t.split('->', 1)[1]) if '->' in t else []
    if t.startswith('goto'): succ[b] = re.findall(r'bb\d+', t)
    succ[b] = [s for s in succ[b] if s in blocks]

print('blocks', len(blocks), 'events', {b: [k for k, _ in e] for b, e in ev.items() if e})

# z3: choose a path bb0 -> ... -> return ; pos[b] increasing along edges (CFG of add is acyclic)
names = sorted(blocks, key=lambda x: int(x[2:]))
on = {b: Bool('on_' + b) for b in names}
pos = {b: Int('pos_' + b) for b in names}
edge = {(b, c): Bool('e_%s_%s' % (b, c)) for b in names for c in succ[b]}
s = Solver()
s.add(on['bb0'], pos['bb0'] == 0)
rets = [b for b in names if blocks[b][-1].startswith('return')]
for b in names:
    outs = [edge[(b, c)] for c in succ[b]]
    ins = [edge[(a, b)] for a in names if b in succ[a]]
    if b not in rets:
        s.add(Implies(on[b], Sum([If(x, 1, 0) for x in outs]) == 1))
    s.add(Implies(Not(on[b]), And([Not(x) for x in outs])))
    if b != 'bb0':
        s.add(on[b] == Or(ins) if ins else Not(on[b]))
    for c in succ[b]:
        s.add(Implies(edge[(b, c)], And(on[b], on[c], pos[c] == pos[b] + 1)))
s.add(Or([on[r] for r in rets]))
idx_blocks = [b for b in names if any(k == 'IDXSTORE' for k, _ in ev[b])]
dev_blocks = [b for b in names if any(k == 'DEVSTORE' for k, _ in ev[b])]
fence_blocks = [b for b in names if any(k == 'FENCE' for k, _ in ev[b])]
print('idx', idx_blocks, 'dev', dev_blocks, 'fence', fence_blocks)
assert len(idx_blocks) == 1
I = idx_blocks[0]
# violation A: a device-visible store block on the path after the idx store
qa = Or([And(on[I], on[d], pos[d] > pos[I]) for d in dev_blocks])
# violation B: idx store on path but some dev store on path without a fence strictly between it and the idx store
qb = Or([And(on[I], on[d], pos[d] <= pos[I],
             Not(Or([And(on[f], pos[f] >= pos[d], pos[f] <= pos[I]) for f in fence_blocks]))) for d in dev_blocks])
# violation C: path reaches a success return through idx store with no ring-slot store before
for name, q in (('store-after-publish', qa), ('no-fence-between', qb)):
    s.push(); s.add(q); r = s.check(); print(name, r)
    if r == sat:
        mdl = s.model(); print('  path:', [b for b in names if mdl.eval(on[b])])
    s.pop()
