use super::*;
use crate::queue::verif_kani::{Backing, KHalT, any_backing, mk_queue, share_ptr};
use crate::transport::{DeviceStatus, DeviceType};
use alloc::boxed::Box;

pub static mut B_CTL: *mut Backing<2> = core::ptr::null_mut();
pub static mut L_CTL: u16 = 0;
pub static mut SEEN_TYPE: u32 = 0;
pub static mut SEEN_LEN: u32 = 0;
pub static mut RSP_TYPE: u32 = 0;
pub static mut RSP_W: u32 = 0;
pub static mut RSP_H: u32 = 0;

pub struct GT;
impl Transport for GT {
    fn device_type(&self) -> DeviceType { DeviceType::GPU }
    fn read_device_features(&mut self) -> u64 { 0 }
    fn write_driver_features(&mut self, _f: u64) {}
    fn max_queue_size(&mut self, _q: u16) -> u32 { 2 }
    fn notify(&mut self, q: u16) {
        if q != 0 { return; }
        unsafe {
            let b = &mut *B_CTL;
            if let Some(head) = b.dev_take(L_CTL) {
                let (a0, l0, f0, n0) = b.dev_desc(head);
                assert!(f0 == 1);
                let (a1, l1, f1, _n1) = b.dev_desc(n0);
                assert!(f1 == 2);
                SEEN_LEN = l0;
                let p = share_ptr(a0);
                SEEN_TYPE = (p as *const u32).read_unaligned();
                let r = share_ptr(a1);
                assert!(l1 == 4096);
                (r as *mut u32).write_unaligned(RSP_TYPE);
                (r.add(24 + 8) as *mut u32).write_unaligned(RSP_W);
                (r.add(24 + 12) as *mut u32).write_unaligned(RSP_H);
                b.dev_complete(&mut *core::ptr::addr_of_mut!(L_CTL), head, 24 + 16 * 24);
            }
        }
    }
    fn get_status(&self) -> DeviceStatus { DeviceStatus::empty() }
    fn set_status(&mut self, _s: DeviceStatus) {}
    fn set_guest_page_size(&mut self, _g: u32) {}
    fn requires_legacy_layout(&self) -> bool { false }
    fn queue_set(&mut self, _q: u16, _s: u32, _d: crate::PhysAddr, _a: crate::PhysAddr, _u: crate::PhysAddr) {}
    fn queue_unset(&mut self, _q: u16) {}
    fn queue_used(&mut self, _q: u16) -> bool { false }
    fn ack_interrupt(&mut self) -> InterruptStatus { InterruptStatus::empty() }
    fn read_config_generation(&self) -> u32 { 0 }
    fn read_config_space<T: FromBytes + IntoBytes>(&self, _o: usize) -> crate::Result<T> { Ok(T::new_zeroed()) }
    fn write_config_space<T: IntoBytes + Immutable>(&mut self, _o: usize, _v: T) -> crate::Result<()> { Ok(()) }
}

#[kani::proof]
#[kani::unwind(4)]
fn probe_g1_gpu_resolution() {
    let bc = Box::leak(Box::new(any_backing::<2>()));
    let bk = Box::leak(Box::new(any_backing::<2>()));
    unsafe { B_CTL = bc; RSP_TYPE = kani::any(); RSP_W = kani::any(); RSP_H = kani::any(); }
    let mut gpu = VirtIOGpu::<KHalT<2>, GT> {
        transport: GT, rect: None, frame_buffer_dma: None, cursor_buffer_dma: None,
        control_queue: mk_queue(bc, 0, false, false), cursor_queue: mk_queue(bk, 1, false, false),
        queue_buf_send: FromZeros::new_box_zeroed_with_elems(PAGE_SIZE).unwrap(),
        queue_buf_recv: FromZeros::new_box_zeroed_with_elems(PAGE_SIZE).unwrap(),
        has_edid: false, access_platform: false,
    };
    let r = gpu.resolution();
    unsafe {
        assert!(SEEN_TYPE == 0x100);
        assert!(SEEN_LEN == 4096);
        if RSP_TYPE == 0x1101 { assert!(r == Ok((RSP_W, RSP_H))); } else { assert!(r == Err(Error::IoError)); }
    }
    core::mem::forget(gpu);
}
