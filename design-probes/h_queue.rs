use super::*;
use crate::hal::{BufferDirection, Hal, PhysAddr};
use crate::transport::{DeviceStatus, DeviceType, InterruptStatus, Transport};
use core::ptr::NonNull;
use zerocopy::{FromBytes, Immutable, IntoBytes};

pub struct KHal;
const DMA_BYTES: usize = 256;

static mut NSHARE: usize = 0;
static mut NUNSHARE: usize = 0;

unsafe impl Hal for KHal {
    fn dma_alloc(pages: usize, _d: BufferDirection, _a: bool) -> (PhysAddr, NonNull<u8>) {
        let layout = core::alloc::Layout::from_size_align(DMA_BYTES, 4096).unwrap();
        let _ = pages;
        let p = unsafe { alloc::alloc::alloc_zeroed(layout) };
        (p as usize as u64, NonNull::new(p).unwrap())
    }
    unsafe fn dma_dealloc(_p: PhysAddr, v: NonNull<u8>, pages: usize, _a: bool) -> i32 {
        let layout = core::alloc::Layout::from_size_align(DMA_BYTES, 4096).unwrap();
        let _ = pages;
        unsafe { alloc::alloc::dealloc(v.as_ptr(), layout) };
        0
    }
    unsafe fn mmio_phys_to_virt(p: PhysAddr, _s: usize) -> NonNull<u8> {
        NonNull::new(p as usize as *mut u8).unwrap()
    }
    unsafe fn share(b: NonNull<[u8]>, _d: BufferDirection, _a: bool) -> PhysAddr {
        unsafe { NSHARE += 1; }
        b.as_ptr() as *mut u8 as usize as u64
    }
    unsafe fn unshare(_p: PhysAddr, _b: NonNull<[u8]>, _d: BufferDirection, _a: bool) {
        unsafe { NUNSHARE += 1; }
    }
}

pub struct KT {
    pub notified: u32,
}
impl Transport for KT {
    fn device_type(&self) -> DeviceType { DeviceType::Block }
    fn read_device_features(&mut self) -> u64 { 0 }
    fn write_driver_features(&mut self, _f: u64) {}
    fn max_queue_size(&mut self, _q: u16) -> u32 { 64 }
    fn notify(&mut self, _q: u16) { self.notified += 1; }
    fn get_status(&self) -> DeviceStatus { DeviceStatus::empty() }
    fn set_status(&mut self, _s: DeviceStatus) {}
    fn set_guest_page_size(&mut self, _g: u32) {}
    fn requires_legacy_layout(&self) -> bool { false }
    fn queue_set(&mut self, _q: u16, _s: u32, _d: PhysAddr, _a: PhysAddr, _u: PhysAddr) {}
    fn queue_unset(&mut self, _q: u16) {}
    fn queue_used(&mut self, _q: u16) -> bool { false }
    fn ack_interrupt(&mut self) -> InterruptStatus { InterruptStatus::empty() }
    fn read_config_generation(&self) -> u32 { 0 }
    fn read_config_space<T: FromBytes + IntoBytes>(&self, _o: usize) -> crate::Result<T> { Err(Error::ConfigSpaceMissing) }
    fn write_config_space<T: IntoBytes + Immutable>(&mut self, _o: usize, _v: T) -> crate::Result<()> { Err(Error::ConfigSpaceMissing) }
}

#[kani::proof]
#[kani::unwind(6)]
fn probe_add_pop() {
    let mut t = KT { notified: 0 };
    let mut q = VirtQueue::<KHal, 4>::new(&mut t, 0, false, kani::any(), false).unwrap();
    // havoc indices
    let base: u16 = kani::any();
    q.avail_idx = base;
    q.last_used_idx = base;
    unsafe { (*q.used.as_ptr()).idx.store(base, Ordering::Relaxed); }
    let a = [1u8, 2, 3];
    let mut b = [0u8; 4];
    let n_in: usize = kani::any();
    kani::assume(n_in <= 1);
    let ins: [&[u8]; 1] = [&a];
    let tok = unsafe { q.add(&ins[..n_in], &mut [&mut b]) }.unwrap();
    assert!(tok == 0);
    assert!(q.avail_idx == base.wrapping_add(1));
    // device completes
    unsafe {
        let slot = (base & 3) as usize;
        (*q.used.as_ptr()).ring[slot].id = tok as u32;
        (*q.used.as_ptr()).ring[slot].len = kani::any();
        (*q.used.as_ptr()).idx.store(base.wrapping_add(1), Ordering::Release);
    }
    assert!(q.can_pop());
    let r = unsafe { q.pop_used(tok, &ins[..n_in], &mut [&mut b]) };
    assert!(r.is_ok());
    assert!(q.num_used == 0);
    assert!(q.free_head == 0);
}

#[kani::proof]
#[kani::unwind(6)]
fn probe_new_only() {
    let mut t = KT { notified: 0 };
    let q = VirtQueue::<KHal, 4>::new(&mut t, 0, false, false, false).unwrap();
    assert!(q.num_used == 0);
}

fn add_pop_body(base: u16, n_in: usize, ev: bool, len: u32) {
    let mut t = KT { notified: 0 };
    let mut q = VirtQueue::<KHal, 4>::new(&mut t, 0, false, ev, false).unwrap();
    q.avail_idx = base;
    q.last_used_idx = base;
    unsafe { (*q.used.as_ptr()).idx.store(base, Ordering::Relaxed); }
    let a = [1u8, 2, 3];
    let mut b = [0u8; 4];
    let ins: [&[u8]; 1] = [&a];
    let tok = unsafe { q.add(&ins[..n_in], &mut [&mut b]) }.unwrap();
    assert!(tok == 0);
    assert!(q.avail_idx == base.wrapping_add(1));
    unsafe {
        let slot = (base & 3) as usize;
        (*q.used.as_ptr()).ring[slot].id = tok as u32;
        (*q.used.as_ptr()).ring[slot].len = len;
        (*q.used.as_ptr()).idx.store(base.wrapping_add(1), Ordering::Release);
    }
    assert!(q.can_pop());
    let r = unsafe { q.pop_used(tok, &ins[..n_in], &mut [&mut b]) };
    assert!(r.is_ok());
    assert!(q.num_used == 0);
    assert!(q.free_head == 0);
}

#[kani::proof]
#[kani::unwind(6)]
fn probe_v1_concrete() { add_pop_body(0, 1, false, 7); }

#[kani::proof]
#[kani::unwind(6)]
fn probe_v2_symlen() { add_pop_body(0, 1, false, kani::any()); }

#[kani::proof]
#[kani::unwind(6)]
fn probe_v3_symbase() { add_pop_body(kani::any(), 1, false, 7); }

#[kani::proof]
#[kani::unwind(6)]
fn probe_v4_symn() { let n: usize = kani::any(); kani::assume(n <= 1); add_pop_body(0, n, false, 7); }

// ---- typed-backing construction -------------------------------------------------
pub struct Backing<const N: usize> {
    pub desc: [Descriptor; N],
    pub avail: AvailRing<N>,
    pub used: UsedRing<N>,
}

pub fn mk_queue<H: Hal, const N: usize>(b: &mut Backing<N>, queue_idx: u16, indirect: bool, event_idx: bool) -> VirtQueue<H, N> {
    let layout = VirtQueueLayout::<H>::allocate_flexible(N as u16, false).unwrap();
    let desc = NonNull::slice_from_raw_parts(NonNull::new(b.desc.as_mut_ptr()).unwrap(), N);
    const NONE: Option<NonNull<[Descriptor]>> = None;
    let mut desc_shadow: [Descriptor; N] = FromZeros::new_zeroed();
    for i in 0..(N - 1) { desc_shadow[i].next = (i + 1) as u16; }
    VirtQueue {
        layout,
        desc,
        avail: NonNull::from(&mut b.avail),
        used: NonNull::from(&mut b.used),
        queue_idx,
        num_used: 0,
        free_head: 0,
        desc_shadow,
        avail_idx: 0,
        last_used_idx: 0,
        event_idx,
        access_platform: false,
        indirect,
        indirect_lists: [NONE; N],
    }
}

pub fn any_backing<const N: usize>() -> Backing<N> {
    Backing {
        desc: FromZeros::new_zeroed(),
        avail: AvailRing { flags: AtomicU16::new(0), idx: AtomicU16::new(0), ring: [0; N], used_event: AtomicU16::new(0) },
        used: UsedRing { flags: AtomicU16::new(0), idx: AtomicU16::new(0), ring: core::array::from_fn(|_| UsedElem { id: 0, len: 0 }), avail_event: AtomicU16::new(0) },
    }
}

/// Havoc the queue into an arbitrary state in which all N descriptors are free and
/// the free list is an arbitrary permutation.
fn havoc_all_free<const N: usize>(q: &mut VirtQueue<KHal, N>) {
    // rank[i] = position of descriptor i in the free list
    let mut rank = [0u16; N];
    for i in 0..N {
        let r: u16 = kani::any();
        kani::assume((r as usize) < N);
        rank[i] = r;
    }
    for i in 0..N { for j in 0..N { if i != j { kani::assume(rank[i] != rank[j]); } } }
    for i in 0..N {
        let nx: u16 = kani::any();
        kani::assume((nx as usize) < N);
        q.desc_shadow[i].next = nx;
        q.desc_shadow[i].flags = DescFlags::from_bits_retain(kani::any::<u16>() & 7);
        if (rank[i] as usize) < N - 1 {
            kani::assume(rank[nx as usize] == rank[i] + 1);
        }
    }
    let fh: u16 = kani::any();
    kani::assume((fh as usize) < N);
    kani::assume(rank[fh as usize] == 0);
    q.free_head = fh;
    q.num_used = 0;
    let base: u16 = kani::any();
    q.avail_idx = base;
    q.last_used_idx = kani::any();
}

#[kani::proof]
#[kani::unwind(6)]
fn probe_t1_typed_add() {
    let mut b = any_backing::<4>();
    let mut q = mk_queue::<KHal, 4>(&mut b, 0, false, false);
    havoc_all_free(&mut q);
    let base = q.avail_idx;
    let fh = q.free_head;
    let second = q.desc_shadow[fh as usize].next;
    let a = [1u8, 2, 3];
    let mut o = [0u8; 4];
    let tok = unsafe { q.add(&[&a], &mut [&mut o]) }.unwrap();
    assert!(tok == fh);
    assert!(q.avail_idx == base.wrapping_add(1));
    assert!(b.avail.idx.load(Ordering::Relaxed) == base.wrapping_add(1));
    assert!(b.avail.ring[(base & 3) as usize] == fh);
    assert!(b.desc[fh as usize].len == 3);
    assert!(b.desc[fh as usize].flags == DescFlags::NEXT);
    assert!(b.desc[fh as usize].next == second);
    assert!(b.desc[second as usize].len == 4);
    assert!(b.desc[second as usize].flags == DescFlags::WRITE);
    assert!(q.num_used == 2);
    core::mem::forget(q);
}

#[kani::proof]
#[kani::unwind(6)]
fn probe_t2_symshape() {
    let mut b = any_backing::<4>();
    let mut q = mk_queue::<KHal, 4>(&mut b, 0, false, false);
    havoc_all_free(&mut q);
    let base = q.avail_idx;
    let fh = q.free_head;
    let a = [1u8, 2, 3];
    let a2 = [9u8; 2];
    let mut o = [0u8; 4];
    let mut o2 = [0u8; 5];
    let n_in: usize = kani::any();
    let n_out: usize = kani::any();
    kani::assume(n_in <= 2 && n_out <= 2 && n_in + n_out >= 1);
    let ins: [&[u8]; 2] = [&a, &a2];
    let mut outs: [&mut [u8]; 2] = [&mut o, &mut o2];
    let tok = unsafe { q.add(&ins[..n_in], &mut outs[..n_out]) }.unwrap();
    assert!(tok == fh);
    assert!(q.avail_idx == base.wrapping_add(1));
    assert!(q.num_used as usize == n_in + n_out);
    kani::cover!(n_in == 2 && n_out == 2 && fh == 3);
    core::mem::forget(q);
}

#[kani::proof]
#[kani::unwind(6)]
fn probe_t3_indirect() {
    let mut b = any_backing::<4>();
    let mut q = mk_queue::<KHal, 4>(&mut b, 0, true, false);
    havoc_all_free(&mut q);
    let base = q.avail_idx;
    let fh = q.free_head;
    let a = [1u8, 2, 3];
    let mut o = [0u8; 4];
    let tok = unsafe { q.add(&[&a], &mut [&mut o]) }.unwrap();
    assert!(tok == fh);
    assert!(b.desc[fh as usize].flags == DescFlags::INDIRECT);
    assert!(b.desc[fh as usize].len == 32);
    assert!(q.num_used == 1);
    let l = q.indirect_lists[fh as usize].unwrap();
    let l = unsafe { l.as_ref() };
    assert!(l.len() == 2);
    assert!(l[0].len == 3 && l[0].flags == DescFlags::NEXT && l[0].next == 1);
    assert!(l[1].len == 4 && l[1].flags == DescFlags::WRITE);
    // complete it
    let slot = (q.last_used_idx & 3) as usize;
    b.used.ring[slot].id = tok as u32;
    b.used.ring[slot].len = kani::any();
    b.used.idx.store(q.last_used_idx.wrapping_add(1), Ordering::Relaxed);
    let r = unsafe { q.pop_used(tok, &[&a], &mut [&mut o]) };
    assert!(r.is_ok());
    assert!(q.num_used == 0);
    assert!(q.free_head == fh);
    core::mem::forget(q);
}

// ---------------- driver-level probe: typed DMA Hal + model transport with in-notify device
#[repr(C, align(16))]
pub struct D2D<const N: usize> { desc: [Descriptor; N], avail: AvailRing<N> }
#[repr(C, align(16))]
pub struct D2H<const N: usize> { used: UsedRing<N> }

pub static mut Q_D2D: *mut D2D<16> = core::ptr::null_mut();
pub static mut Q_D2H: *mut D2H<16> = core::ptr::null_mut();
pub static mut DEV_LAST_USED: u16 = 0;
pub static mut DEV_STATUS: u8 = 0;
pub static mut DEV_SEEN_TYPE: u32 = 0xffff;
pub static mut DEV_SEEN_SECTOR: u64 = 0;
pub static mut DEV_DATA0: u8 = 0;

pub struct KHal16;
unsafe impl Hal for KHal16 {
    fn dma_alloc(_pages: usize, d: BufferDirection, _a: bool) -> (PhysAddr, NonNull<u8>) {
        match d {
            BufferDirection::DriverToDevice => {
                let b: alloc::boxed::Box<D2D<16>> = alloc::boxed::Box::new(D2D { desc: FromZeros::new_zeroed(),
                    avail: AvailRing { flags: AtomicU16::new(0), idx: AtomicU16::new(0), ring: [0; 16], used_event: AtomicU16::new(0) } });
                let p = alloc::boxed::Box::into_raw(b);
                unsafe { Q_D2D = p; }
                (0x10000, NonNull::new(p as *mut u8).unwrap())
            }
            _ => {
                let b: alloc::boxed::Box<D2H<16>> = alloc::boxed::Box::new(D2H { used: UsedRing { flags: AtomicU16::new(0), idx: AtomicU16::new(0),
                    ring: core::array::from_fn(|_| UsedElem { id: 0, len: 0 }), avail_event: AtomicU16::new(0) } });
                let p = alloc::boxed::Box::into_raw(b);
                unsafe { Q_D2H = p; }
                (0x20000, NonNull::new(p as *mut u8).unwrap())
            }
        }
    }
    unsafe fn dma_dealloc(p: PhysAddr, v: NonNull<u8>, _pages: usize, _a: bool) -> i32 {
        unsafe {
            if p == 0x10000 { drop(alloc::boxed::Box::from_raw(v.as_ptr() as *mut D2D<16>)); }
            else { drop(alloc::boxed::Box::from_raw(v.as_ptr() as *mut D2H<16>)); }
        }
        0
    }
    unsafe fn mmio_phys_to_virt(p: PhysAddr, _s: usize) -> NonNull<u8> { NonNull::new(p as usize as *mut u8).unwrap() }
    unsafe fn share(b: NonNull<[u8]>, _d: BufferDirection, _a: bool) -> PhysAddr {
        // ledger: remember pointer, return slot id as address
        unsafe {
            let i = SH_N; SH_PTR[i] = b.as_ptr() as *mut u8; SH_LEN[i] = b.len(); SH_N += 1;
            0x1000_0000 + (i as u64) * 0x1_0000
        }
    }
    unsafe fn unshare(_p: PhysAddr, _b: NonNull<[u8]>, _d: BufferDirection, _a: bool) {}
}
pub static mut SH_PTR: [*mut u8; 8] = [core::ptr::null_mut(); 8];
pub static mut SH_LEN: [usize; 8] = [0; 8];
pub static mut SH_N: usize = 0;

fn dev_ptr(addr: u64) -> *mut u8 {
    let i = ((addr - 0x1000_0000) / 0x1_0000) as usize;
    unsafe { SH_PTR[i] }
}

pub struct BlkT { pub status: DeviceStatus, pub features: u64 }
impl Transport for BlkT {
    fn device_type(&self) -> DeviceType { DeviceType::Block }
    fn read_device_features(&mut self) -> u64 { self.features }
    fn write_driver_features(&mut self, _f: u64) {}
    fn max_queue_size(&mut self, _q: u16) -> u32 { 16 }
    fn notify(&mut self, _q: u16) {
        // reference block device: serve exactly one request
        unsafe {
            let d2d = &*Q_D2D; let d2h = &mut *Q_D2H;
            let aidx = d2d.avail.idx.load(Ordering::Acquire);
            if aidx == DEV_LAST_USED { return; }
            let head = d2d.avail.ring[(DEV_LAST_USED & 15) as usize];
            let d0 = &d2d.desc[head as usize];
            assert!(d0.len == 16 && d0.flags == DescFlags::NEXT);
            let hp = dev_ptr(d0.addr);
            DEV_SEEN_TYPE = (hp as *const u32).read_unaligned();
            DEV_SEEN_SECTOR = (hp.add(8) as *const u64).read_unaligned();
            let d1 = &d2d.desc[d0.next as usize];
            assert!(d1.flags == DescFlags::NEXT | DescFlags::WRITE);
            assert!(d1.len == 512);
            let dp = dev_ptr(d1.addr);
            *dp = DEV_DATA0;
            let d2 = &d2d.desc[d1.next as usize];
            assert!(d2.flags == DescFlags::WRITE && d2.len == 1);
            *dev_ptr(d2.addr) = DEV_STATUS;
            d2h.used.ring[(DEV_LAST_USED & 15) as usize].id = head as u32;
            d2h.used.ring[(DEV_LAST_USED & 15) as usize].len = 513;
            DEV_LAST_USED = DEV_LAST_USED.wrapping_add(1);
            d2h.used.idx.store(DEV_LAST_USED, Ordering::Release);
        }
    }
    fn get_status(&self) -> DeviceStatus { self.status }
    fn set_status(&mut self, s: DeviceStatus) { self.status = s; }
    fn set_guest_page_size(&mut self, _g: u32) {}
    fn requires_legacy_layout(&self) -> bool { false }
    fn queue_set(&mut self, _q: u16, _s: u32, _d: PhysAddr, _a: PhysAddr, _u: PhysAddr) {}
    fn queue_unset(&mut self, _q: u16) {}
    fn queue_used(&mut self, _q: u16) -> bool { false }
    fn ack_interrupt(&mut self) -> InterruptStatus { InterruptStatus::empty() }
    fn read_config_generation(&self) -> u32 { 0 }
    fn read_config_space<T: FromBytes + IntoBytes>(&self, _o: usize) -> crate::Result<T> { Ok(T::new_zeroed()) }
    fn write_config_space<T: IntoBytes + Immutable>(&mut self, _o: usize, _v: T) -> crate::Result<()> { Ok(()) }
}

#[kani::proof]
#[kani::unwind(40)]
fn probe_d1_blk_read() {
    use crate::device::blk::VirtIOBlk;
    let feats: u64 = kani::any();
    kani::assume(feats & (1 << 28) == 0); // direct only in this probe
    let t = BlkT { status: DeviceStatus::empty(), features: feats };
    let mut blk = VirtIOBlk::<KHal16, BlkT>::new(t).unwrap();
    let mut buf = [0u8; 512];
    let sector: usize = kani::any();
    unsafe { DEV_STATUS = kani::any(); DEV_DATA0 = kani::any(); }
    let r = blk.read_blocks(sector, &mut buf);
    unsafe {
        assert!(DEV_SEEN_TYPE == 0);
        assert!(DEV_SEEN_SECTOR == sector as u64);
        if DEV_STATUS == 0 { assert!(r.is_ok()); assert!(buf[0] == DEV_DATA0); } else { assert!(r.is_err()); }
    }
    core::mem::forget(blk);
}

// ---------------- generic typed-DMA Hal for N-entry queues, multiple queues
pub struct KHalT<const N: usize>;
pub static mut DMA_PTR: [*mut u8; 12] = [core::ptr::null_mut(); 12];
pub static mut DMA_N: usize = 0;
pub static mut SH2_PTR: [*mut u8; 40] = [core::ptr::null_mut(); 40];
pub static mut SH2_N: usize = 0;
unsafe impl<const N: usize> Hal for KHalT<N> {
    fn dma_alloc(_pages: usize, d: BufferDirection, _a: bool) -> (PhysAddr, NonNull<u8>) {
        unsafe {
            let i = DMA_N; DMA_N += 1;
            let p: *mut u8 = match d {
                BufferDirection::DriverToDevice => alloc::boxed::Box::into_raw(alloc::boxed::Box::new(D2D::<N> { desc: FromZeros::new_zeroed(),
                    avail: AvailRing { flags: AtomicU16::new(0), idx: AtomicU16::new(0), ring: [0; N], used_event: AtomicU16::new(0) } })) as *mut u8,
                _ => alloc::boxed::Box::into_raw(alloc::boxed::Box::new(D2H::<N> { used: UsedRing { flags: AtomicU16::new(0), idx: AtomicU16::new(0),
                    ring: core::array::from_fn(|_| UsedElem { id: 0, len: 0 }), avail_event: AtomicU16::new(0) } })) as *mut u8,
            };
            DMA_PTR[i] = p;
            (0x10000 * (i as u64 + 1), NonNull::new(p).unwrap())
        }
    }
    unsafe fn dma_dealloc(_p: PhysAddr, _v: NonNull<u8>, _pages: usize, _a: bool) -> i32 { 0 }
    unsafe fn mmio_phys_to_virt(p: PhysAddr, _s: usize) -> NonNull<u8> { NonNull::new(p as usize as *mut u8).unwrap() }
    unsafe fn share(b: NonNull<[u8]>, _d: BufferDirection, _a: bool) -> PhysAddr {
        unsafe { let i = SH2_N; SH2_PTR[i] = b.as_ptr() as *mut u8; SH2_N += 1; 0x1000_0000 + (i as u64) * 0x1_0000 }
    }
    unsafe fn unshare(_p: PhysAddr, _b: NonNull<[u8]>, _d: BufferDirection, _a: bool) {}
}
fn dev_ptr2(addr: u64) -> *mut u8 { unsafe { SH2_PTR[((addr - 0x1000_0000) / 0x1_0000) as usize] } }

pub static mut VS_LAST_USED: [u16; 3] = [0; 3];
pub static mut VS_TX_HDR: [u8; 44] = [0; 44];
pub static mut VS_TX_COUNT: usize = 0;

pub struct VsT { pub status: DeviceStatus }
impl VsT {
    /// device: take next avail chain on queue q (direct descriptors only), return head
    unsafe fn take<const N: usize>(q: usize) -> Option<u16> {
        unsafe {
            let d2d = &*(DMA_PTR[2 * q] as *const D2D<N>);
            let aidx = d2d.avail.idx.load(Ordering::Acquire);
            if aidx == VS_LAST_USED[q] { return None; }
            Some(d2d.avail.ring[(VS_LAST_USED[q] as usize) & (N - 1)])
        }
    }
    unsafe fn complete<const N: usize>(q: usize, head: u16, len: u32) {
        unsafe {
            let d2h = &mut *(DMA_PTR[2 * q + 1] as *mut D2H<N>);
            let slot = (VS_LAST_USED[q] as usize) & (N - 1);
            d2h.used.ring[slot].id = head as u32;
            d2h.used.ring[slot].len = len;
            VS_LAST_USED[q] = VS_LAST_USED[q].wrapping_add(1);
            d2h.used.idx.store(VS_LAST_USED[q], Ordering::Release);
        }
    }
    /// device injects a packet (header only) into the next rx buffer
    pub unsafe fn inject_rx(hdr: &[u8; 44]) {
        unsafe {
            let head = Self::take::<8>(0).unwrap();
            let d2d = &*(DMA_PTR[0] as *const D2D<8>);
            let d = &d2d.desc[head as usize];
            assert!(d.flags == DescFlags::WRITE && d.len == 64);
            let p = dev_ptr2(d.addr);
            let mut i = 0; while i < 44 { *p.add(i) = hdr[i]; i += 1; }
            Self::complete::<8>(0, head, 44);
        }
    }
}
impl Transport for VsT {
    fn device_type(&self) -> DeviceType { DeviceType::Socket }
    fn read_device_features(&mut self) -> u64 { 1 << 32 }
    fn write_driver_features(&mut self, _f: u64) {}
    fn max_queue_size(&mut self, _q: u16) -> u32 { 8 }
    fn notify(&mut self, q: u16) {
        if q != 1 { return; }
        unsafe {
            if let Some(head) = Self::take::<8>(1) {
                let d2d = &*(DMA_PTR[2] as *const D2D<8>);
                let d = &d2d.desc[head as usize];
                assert!(d.len == 44);
                let p = dev_ptr2(d.addr);
                let mut i = 0; while i < 44 { VS_TX_HDR[i] = *p.add(i); i += 1; }
                VS_TX_COUNT += 1;
                Self::complete::<8>(1, head, 0);
            }
        }
    }
    fn get_status(&self) -> DeviceStatus { self.status }
    fn set_status(&mut self, s: DeviceStatus) { self.status = s; }
    fn set_guest_page_size(&mut self, _g: u32) {}
    fn requires_legacy_layout(&self) -> bool { false }
    fn queue_set(&mut self, _q: u16, _s: u32, _d: PhysAddr, _a: PhysAddr, _u: PhysAddr) {}
    fn queue_unset(&mut self, _q: u16) {}
    fn queue_used(&mut self, _q: u16) -> bool { false }
    fn ack_interrupt(&mut self) -> InterruptStatus { InterruptStatus::empty() }
    fn read_config_generation(&self) -> u32 { 0 }
    fn read_config_space<T: FromBytes + IntoBytes>(&self, o: usize) -> crate::Result<T> {
        // guest cid = 3
        let v: u32 = if o == 0 { 3 } else { 0 };
        Ok(T::read_from_bytes(&v.as_bytes()[..core::mem::size_of::<T>()]).unwrap())
    }
    fn write_config_space<T: IntoBytes + Immutable>(&mut self, _o: usize, _v: T) -> crate::Result<()> { Ok(()) }
}

#[kani::proof]
#[kani::unwind(46)]
fn probe_v1_vsock_connect() {
    use crate::device::socket::{VirtIOSocket, VsockAddr, VsockConnectionManager, VsockEventType};
    let t = VsT { status: DeviceStatus::empty() };
    let sock = VirtIOSocket::<KHalT<8>, VsT, 64>::new(t).unwrap();
    let mut m = VsockConnectionManager::new_with_capacity(sock, 8);
    let peer = VsockAddr { cid: kani::any(), port: kani::any() };
    let lport: u32 = kani::any();
    m.connect(peer, lport).unwrap();
    unsafe {
        assert!(VS_TX_COUNT == 1);
        // op at offset 30..32 == 1 (Request)
        assert!(VS_TX_HDR[30] == 1 && VS_TX_HDR[31] == 0);
        // buf_alloc at 36..40 == 8
        assert!(VS_TX_HDR[36] == 8);
    }
    // peer responds
    let mut h = [0u8; 44];
    h[0..8].copy_from_slice(&peer.cid.to_le_bytes());
    h[8..16].copy_from_slice(&3u64.to_le_bytes());
    h[16..20].copy_from_slice(&peer.port.to_le_bytes());
    h[20..24].copy_from_slice(&lport.to_le_bytes());
    h[28] = 1; // stream
    h[30] = 2; // response
    let ba: u32 = kani::any();
    h[36..40].copy_from_slice(&ba.to_le_bytes());
    unsafe { VsT::inject_rx(&h); }
    let ev = m.poll().unwrap().unwrap();
    assert!(ev.event_type == VsockEventType::Connected);
    assert!(ev.buffer_status.buffer_allocation == ba);
    assert!(m.is_connection_established(peer, lport).unwrap());
    core::mem::forget(m);
}

impl<const N: usize> Backing<N> {
    pub fn dev_take(&self, last: u16) -> Option<u16> {
        let aidx = self.avail.idx.load(Ordering::Acquire);
        if aidx == last { None } else { Some(self.avail.ring[(last as usize) & (N - 1)]) }
    }
    pub fn dev_desc(&self, i: u16) -> (u64, u32, u16, u16) {
        let d = &self.desc[i as usize];
        (d.addr, d.len, d.flags.bits(), d.next)
    }
    pub fn dev_complete(&mut self, last: &mut u16, head: u16, len: u32) {
        let slot = (*last as usize) & (N - 1);
        self.used.ring[slot].id = head as u32;
        self.used.ring[slot].len = len;
        *last = last.wrapping_add(1);
        self.used.idx.store(*last, Ordering::Release);
    }
}
impl<const N: usize> Backing<N> {
    pub fn dev_avail_idx(&self) -> u16 { self.avail.idx.load(Ordering::Acquire) }
    pub fn dev_avail_slot(&self, i: usize) -> u16 { self.avail.ring[i] }
}
pub fn share_ptr(addr: u64) -> *mut u8 { dev_ptr2(addr) }

#[inline(never)]
fn addwrap(a: u32, b: u32) -> u32 { a + b }
#[kani::proof]
fn probe_o1_overflow() {
    let a: u32 = kani::any(); let b: u32 = kani::any();
    let c = addwrap(a, b);
    assert!(c == a.wrapping_add(b));
}

fn need_event(event: u16, new: u16, old: u16) -> bool {
    new.wrapping_sub(event).wrapping_sub(1) < new.wrapping_sub(old)
}

#[kani::proof]
#[kani::unwind(6)]
fn probe_n1_notify_batch() {
    let mut b = any_backing::<4>();
    let mut q = mk_queue::<KHal, 4>(&mut b, 0, false, true);
    let old: u16 = kani::any();
    q.avail_idx = old;
    q.last_used_idx = kani::any();
    let a = [1u8];
    let k: u8 = kani::any();
    kani::assume(k >= 1 && k <= 2);
    unsafe { q.add(&[&a], &mut []) }.unwrap();
    if k == 2 { unsafe { q.add(&[&a], &mut []) }.unwrap(); }
    let ev: u16 = kani::any();
    b.used.avail_event.store(ev, Ordering::Relaxed);
    let new = old.wrapping_add(k as u16);
    if need_event(ev, new, old) {
        assert!(q.should_notify());
    }
    core::mem::forget(q);
}

/// Test generated for harness `queue::verif_kani::probe_n1_notify_batch`
///
/// Check for `assertion`: "assertion failed: q.should_notify()"


pub static mut SPIN_CALLS: u32 = 0;
pub static mut SPIN_B: *mut Backing<4> = core::ptr::null_mut();
fn spin_dev() {
    unsafe {
        SPIN_CALLS += 1;
        // "late" device: serves the request when polled from the spin loop
        let b = &mut *SPIN_B;
        let mut last = b.used.idx.load(Ordering::Relaxed);
        if let Some(h) = b.dev_take(last) { b.dev_complete(&mut last, h, 0); }
    }
}
pub static mut DEALLOC_N: usize = 0;
unsafe fn log_dealloc(_ptr: *mut u8, _layout: core::alloc::Layout) {
    unsafe { DEALLOC_N += 1; }
}
struct GStub;
impl GStub {
    unsafe fn deallocate(_s: &alloc::alloc::Global, _ptr: NonNull<u8>, _layout: core::alloc::Layout) {
        unsafe { DEALLOC_N += 1; }
    }
}

#[kani::proof]
#[kani::stub(core::hint::spin_loop, spin_dev)]
#[kani::stub(alloc::alloc::dealloc, log_dealloc)]
#[kani::stub(<alloc::alloc::Global as core::alloc::Allocator>::deallocate, GStub::deallocate)]
#[kani::unwind(6)]
fn probe_s1_spin_and_dealloc() {
    let mut b = any_backing::<4>();
    unsafe { SPIN_B = &mut b; }
    let mut q = mk_queue::<KHal, 4>(&mut b, 0, false, false);
    // device suppressed notifications (it is polling)
    b.used.flags.store(1, Ordering::Relaxed);
    let mut t = KT { notified: 0 };
    let a = [7u8; 2];
    let r = q.add_notify_wait_pop(&[&a], &mut [], &mut t);
    assert!(r.is_ok());
    assert!(t.notified == 0);
    unsafe { assert!(SPIN_CALLS == 1); }
    let bx = alloc::boxed::Box::new([0u8; 16]);
    drop(bx);
    unsafe { assert!(DEALLOC_N == 1); }
    core::mem::forget(q);
}

#[kani::proof]
#[kani::unwind(8)]
fn probe_b1_btreemap() {
    use alloc::collections::BTreeMap;
    use alloc::vec::Vec;
    let mut m: BTreeMap<u16, Vec<u8>> = BTreeMap::new();
    let k1: u16 = kani::any(); let k2: u16 = kani::any();
    kani::assume(k1 != k2);
    m.insert(k1, alloc::vec![1u8; 4]);
    m.insert(k2, alloc::vec![2u8; 4]);
    assert!(m.contains_key(&k1));
    assert!(m[&k2][0] == 2);
    m.remove(&k1);
    assert!(!m.contains_key(&k1));
    core::mem::forget(m);
}

// ---------------- C09 probe: k-th dma_alloc fails; drop order log
pub static mut FAIL_AT: usize = 0;
pub static mut ALLOC_CALLS: usize = 0;
pub static mut LIVE: [bool; 4] = [false; 4];
pub static mut DEALLOCS: usize = 0;
pub static mut EV_N: usize = 0;
pub static mut EV: [u8; 16] = [0; 16]; // 1=queue_unset 2=reset 3=dma_dealloc 4=driver_ok
fn ev(e: u8) { unsafe { if EV_N < 16 { EV[EV_N] = e; EV_N += 1; } } }
pub struct FHal;
unsafe impl Hal for FHal {
    fn dma_alloc(_pages: usize, d: BufferDirection, _a: bool) -> (PhysAddr, NonNull<u8>) {
        unsafe {
            ALLOC_CALLS += 1;
            if ALLOC_CALLS == FAIL_AT { return (0, NonNull::dangling()); }
            let i = ALLOC_CALLS - 1;
            let p: *mut u8 = match d {
                BufferDirection::DriverToDevice => alloc::boxed::Box::into_raw(alloc::boxed::Box::new(D2D::<16> { desc: FromZeros::new_zeroed(),
                    avail: AvailRing { flags: AtomicU16::new(0), idx: AtomicU16::new(0), ring: [0; 16], used_event: AtomicU16::new(0) } })) as *mut u8,
                _ => alloc::boxed::Box::into_raw(alloc::boxed::Box::new(D2H::<16> { used: UsedRing { flags: AtomicU16::new(0), idx: AtomicU16::new(0),
                    ring: core::array::from_fn(|_| UsedElem { id: 0, len: 0 }), avail_event: AtomicU16::new(0) } })) as *mut u8,
            };
            LIVE[i] = true;
            (0x10000 * (i as u64 + 1), NonNull::new(p).unwrap())
        }
    }
    unsafe fn dma_dealloc(p: PhysAddr, _v: NonNull<u8>, _pages: usize, _a: bool) -> i32 {
        unsafe {
            let i = (p / 0x10000 - 1) as usize;
            assert!(LIVE[i]);
            LIVE[i] = false; DEALLOCS += 1;
        }
        ev(3);
        0
    }
    unsafe fn mmio_phys_to_virt(p: PhysAddr, _s: usize) -> NonNull<u8> { NonNull::new(p as usize as *mut u8).unwrap() }
    unsafe fn share(_b: NonNull<[u8]>, _d: BufferDirection, _a: bool) -> PhysAddr { 0x5000 }
    unsafe fn unshare(_p: PhysAddr, _b: NonNull<[u8]>, _d: BufferDirection, _a: bool) {}
}
pub struct RT { pub status: DeviceStatus, pub features: u64 }
impl Drop for RT { fn drop(&mut self) { ev(2); } }
impl Transport for RT {
    fn device_type(&self) -> DeviceType { DeviceType::Block }
    fn read_device_features(&mut self) -> u64 { self.features }
    fn write_driver_features(&mut self, _f: u64) {}
    fn max_queue_size(&mut self, _q: u16) -> u32 { 16 }
    fn notify(&mut self, _q: u16) {}
    fn get_status(&self) -> DeviceStatus { self.status }
    fn set_status(&mut self, s: DeviceStatus) { if s.contains(DeviceStatus::DRIVER_OK) { ev(4); } self.status = s; }
    fn set_guest_page_size(&mut self, _g: u32) {}
    fn requires_legacy_layout(&self) -> bool { false }
    fn queue_set(&mut self, _q: u16, _s: u32, _d: PhysAddr, _a: PhysAddr, _u: PhysAddr) {}
    fn queue_unset(&mut self, _q: u16) { ev(1); }
    fn queue_used(&mut self, _q: u16) -> bool { false }
    fn ack_interrupt(&mut self) -> InterruptStatus { InterruptStatus::empty() }
    fn read_config_generation(&self) -> u32 { 0 }
    fn read_config_space<T: FromBytes + IntoBytes>(&self, _o: usize) -> crate::Result<T> { Ok(T::new_zeroed()) }
    fn write_config_space<T: IntoBytes + Immutable>(&mut self, _o: usize, _v: T) -> crate::Result<()> { Ok(()) }
}

#[kani::proof]
#[kani::unwind(40)]
fn probe_f1_blk_fail_k() {
    use crate::device::blk::VirtIOBlk;
    let k: usize = kani::any();
    kani::assume(k >= 1 && k <= 3);
    unsafe { FAIL_AT = k; }
    let t = RT { status: DeviceStatus::empty(), features: kani::any() };
    let r = VirtIOBlk::<FHal, RT>::new(t);
    match r {
        Err(e) => { assert!(k <= 2); assert!(e == Error::DmaError); }
        Ok(b) => { assert!(k == 3); drop(b); }
    }
    unsafe {
        assert!(!LIVE[0] && !LIVE[1]);
        assert!(DEALLOCS == if k == 1 { 0 } else if k == 2 { 1 } else { 2 });
        if k == 3 {
            // order: driver_ok, queue_unset, reset, dealloc, dealloc
            assert!(EV[0] == 4 && EV[1] == 1 && EV[2] == 2 && EV[3] == 3 && EV[4] == 3);
        }
    }
}

// ---------------- C06 probe: layout arithmetic for all 16 queue sizes at once
pub struct LHal;
pub static mut L_N: usize = 0;
pub static mut L_PAGES: [usize; 2] = [0; 2];
pub static mut L_PADDR: [u64; 2] = [0; 2];
pub static mut L_DIR: [u8; 2] = [9; 2];
unsafe impl Hal for LHal {
    fn dma_alloc(pages: usize, d: BufferDirection, _a: bool) -> (PhysAddr, NonNull<u8>) {
        unsafe {
            let i = L_N; L_N += 1;
            let p: u64 = kani::any();
            kani::assume(p != 0 && p % 4096 == 0 && p < (1u64 << 52));
            L_PAGES[i] = pages; L_PADDR[i] = p;
            L_DIR[i] = match d { BufferDirection::DriverToDevice => 0, BufferDirection::DeviceToDriver => 1, BufferDirection::Both => 2 };
            (p, NonNull::new(0x1000 as *mut u8).unwrap())
        }
    }
    unsafe fn dma_dealloc(_p: PhysAddr, _v: NonNull<u8>, _pages: usize, _a: bool) -> i32 { 0 }
    unsafe fn mmio_phys_to_virt(p: PhysAddr, _s: usize) -> NonNull<u8> { NonNull::new(p as usize as *mut u8).unwrap() }
    unsafe fn share(_b: NonNull<[u8]>, _d: BufferDirection, _a: bool) -> PhysAddr { 0 }
    unsafe fn unshare(_p: PhysAddr, _b: NonNull<[u8]>, _d: BufferDirection, _a: bool) {}
}

#[kani::proof]
fn probe_l1_layout_all_sizes() {
    let n: u16 = kani::any();
    kani::assume(n.is_power_of_two());
    let legacy: bool = kani::any();
    let l = if legacy { VirtQueueLayout::<LHal>::allocate_legacy(n, false) } else { VirtQueueLayout::<LHal>::allocate_flexible(n, false) }.unwrap();
    let (d, a, u) = (l.descriptors_paddr(), l.driver_area_paddr(), l.device_area_paddr());
    let nn = n as u64;
    assert!(d % 16 == 0 && a % 2 == 0 && u % 4 == 0);
    let (dl, al, ul) = (16 * nn, 6 + 2 * nn, 6 + 8 * nn);
    assert!(d + dl <= a || a + al <= d);
    assert!(a + al <= u || u + ul <= a);
    assert!(d + dl <= u || u + ul <= d);
    unsafe {
        if legacy {
            assert!(L_N == 1 && L_DIR[0] == 2);
            let end = L_PADDR[0] + 4096 * L_PAGES[0] as u64;
            assert!(d == L_PADDR[0] && a == d + dl && u % 4096 == 0 && u >= a + al && u - (a + al) < 4096);
            assert!(u + ul <= end);
        } else {
            assert!(L_N == 2 && L_DIR[0] == 0 && L_DIR[1] == 1);
            assert!(d == L_PADDR[0] && a == d + dl && a + al <= L_PADDR[0] + 4096 * L_PAGES[0] as u64);
            assert!(u == L_PADDR[1] && u + ul <= L_PADDR[1] + 4096 * L_PAGES[1] as u64);
        }
    }
    kani::cover!(n == 32768 && legacy);
    core::mem::forget(l);
}

// ---------------- C03 probe: arbitrary INV state with up to 2 outstanding direct chains, pop one
#[kani::proof]
#[kani::unwind(6)]
fn probe_c3_pop_from_inv() {
    const N: usize = 4;
    let mut b = any_backing::<N>();
    let mut q = mk_queue::<KHal, N>(&mut b, 0, false, kani::any());
    // permutation ord[]
    let mut ord = [0u16; N];
    for i in 0..N { let v: u16 = kani::any(); kani::assume((v as usize) < N); ord[i] = v; }
    for i in 0..N { for j in 0..N { if i < j { kani::assume(ord[i] != ord[j]); } } }
    // cut points: chain A = ord[0..ca], chain B = ord[ca..ca+cb], free = rest
    let ca: usize = kani::any(); let cb: usize = kani::any();
    kani::assume(ca >= 1 && ca <= 2 && cb <= 2 && ca + cb <= N);
    // per-descriptor direction: inputs first within a chain
    let a_in: usize = kani::any(); kani::assume(a_in <= ca);
    let b_in: usize = kani::any(); kani::assume(b_in <= cb);
    for p in 0..N {
        let d = ord[p] as usize;
        let in_a = p < ca; let in_b = !in_a && p < ca + cb;
        let last_of_chain = (in_a && p == ca - 1) || (in_b && p == ca + cb - 1);
        let nxt = if p + 1 < N { ord[p + 1] } else { kani::any::<u16>() % (N as u16) };
        q.desc_shadow[d].next = nxt;
        if in_a || in_b {
            let pos = if in_a { p } else { p - ca };
            let nin = if in_a { a_in } else { b_in };
            let mut f = DescFlags::empty();
            if !last_of_chain { f |= DescFlags::NEXT; }
            if pos >= nin { f |= DescFlags::WRITE; }
            q.desc_shadow[d].flags = f;
            q.desc_shadow[d].addr = kani::any();
            q.desc_shadow[d].len = 1;
        } else {
            q.desc_shadow[d].flags = DescFlags::from_bits_retain(kani::any::<u16>() & 7);
        }
    }
    q.num_used = (ca + cb) as u16;
    q.free_head = if ca + cb < N { ord[ca + cb] } else { kani::any::<u16>() % (N as u16) };
    q.avail_idx = kani::any();
    let lu: u16 = kani::any();
    q.last_used_idx = lu;
    // device completed m chains in arbitrary order
    let nch = if cb > 0 { 2 } else { 1 };
    let m: u16 = kani::any(); kani::assume(m <= nch);
    let first_is_a: bool = kani::any();
    let head_a = ord[0]; let head_b = ord[ca % N];
    let (h0, h1) = if first_is_a || cb == 0 { (head_a, head_b) } else { (head_b, head_a) };
    b.used.ring[(lu & 3) as usize] = UsedElem { id: h0 as u32, len: kani::any() };
    b.used.ring[(lu.wrapping_add(1) & 3) as usize] = UsedElem { id: h1 as u32, len: kani::any() };
    b.used.idx.store(lu.wrapping_add(m), Ordering::Relaxed);
    // caller pops chain A with its buffers
    let x = [0u8; 1];
    let mut y0 = [0u8; 1]; let mut y1 = [0u8; 1];
    let ins: [&[u8]; 2] = [&x, &x];
    let mut outs: [&mut [u8]; 2] = [&mut y0, &mut y1];
    let before_free = q.free_head; let before_used = q.num_used;
    let r = unsafe { q.pop_used(head_a, &ins[..a_in], &mut outs[..ca - a_in]) };
    if m == 0 { assert!(r == Err(Error::NotReady)); assert!(q.num_used == before_used && q.free_head == before_free && q.last_used_idx == lu); }
    else if h0 != head_a { assert!(r == Err(Error::WrongToken)); assert!(q.num_used == before_used && q.free_head == before_free && q.last_used_idx == lu); }
    else {
        assert!(r.is_ok());
        assert!(q.last_used_idx == lu.wrapping_add(1));
        assert!(q.num_used as usize == cb);
        assert!(q.free_head == head_a);
        // free list now: chain A descriptors in order, then the old free list
        let mut cur = q.free_head; let mut cnt = 0usize;
        while cnt < N - cb {
            assert!(cur == ord[if cnt < ca { cnt } else { cnt + cb }]);
            cur = q.desc_shadow[cur as usize].next; cnt += 1;
        }
    }
    kani::cover!(m == 2 && !first_is_a && cb == 2 && ord[0] == 3);
    kani::cover!(lu == 0xffff && m == 1 && h0 == head_a);
    core::mem::forget(q);
}

// ---------------- C07 probe: everything the device can reach is arbitrary; one outstanding direct chain; caller pops it
#[kani::proof]
#[kani::unwind(6)]
fn probe_c7_hostile_pop() {
    const N: usize = 4;
    let mut b = any_backing::<N>();
    let mut q = mk_queue::<KHal, N>(&mut b, 0, false, kani::any());
    havoc_all_free(&mut q);
    let a = [1u8, 2];
    let mut o = [0u8; 3];
    let n_in: usize = kani::any(); kani::assume(n_in <= 1);
    let ins: [&[u8]; 1] = [&a];
    let tok = unsafe { q.add(&ins[..n_in], &mut [&mut o]) }.unwrap();
    let used_before = q.num_used;
    // hostile device: scribble over everything it can reach
    for i in 0..N {
        b.desc[i].addr = kani::any(); b.desc[i].len = kani::any();
        b.desc[i].flags = DescFlags::from_bits_retain(kani::any()); b.desc[i].next = kani::any();
        b.avail.ring[i] = kani::any();
        b.used.ring[i] = UsedElem { id: kani::any(), len: kani::any() };
    }
    b.avail.idx.store(kani::any(), Ordering::Relaxed);
    b.avail.flags.store(kani::any(), Ordering::Relaxed);
    b.avail.used_event.store(kani::any(), Ordering::Relaxed);
    b.used.idx.store(kani::any(), Ordering::Relaxed);
    b.used.flags.store(kani::any(), Ordering::Relaxed);
    b.used.avail_event.store(kani::any(), Ordering::Relaxed);
    let _ = q.should_notify();
    let _ = q.peek_used();
    let r = unsafe { q.pop_used(tok, &ins[..n_in], &mut [&mut o]) };
    match r {
        Ok(_) => { assert!(q.num_used == 0); assert!(q.free_head == tok); }
        Err(e) => { assert!(e == Error::NotReady || e == Error::WrongToken); assert!(q.num_used == used_before); }
    }
    kani::cover!(r.is_ok());
    core::mem::forget(q);
}
