use super::*;

pub struct Cfg2 { pub words: [u32; 16], pub bar_mask: [u32; 6], pub unsafe_sizing: bool }
impl ConfigurationAccess for Cfg2 {
    fn read_word(&self, _df: DeviceFunction, off: u8) -> u32 { self.words[(off >> 2) as usize] }
    fn write_word(&mut self, _df: DeviceFunction, off: u8, data: u32) {
        let i = (off >> 2) as usize;
        if i == 1 { self.words[1] = (self.words[1] & 0xffff_0000) | (data & 0xffff); }
        else if (4..10).contains(&i) {
            if data == 0xffff_ffff && self.words[1] & 3 != 0 { self.unsafe_sizing = true; }
            let m = self.bar_mask[i - 4];
            self.words[i] = (self.words[i] & !m) | (data & m);
        }
    }
    unsafe fn unsafe_clone(&self) -> Self { panic!() }
}

#[kani::proof]
#[kani::unwind(18)]
fn probe_b2_bar_info() {
    let mut cfg = Cfg2 { words: [0; 16], bar_mask: [0; 6], unsafe_sizing: false };
    cfg.words[1] = kani::any::<u32>() & 0x0000_0577;
    let slot: u8 = kani::any(); kani::assume(slot < 6);
    let s = slot as usize;
    // symbolic BAR: kind bits + size 2^k (k in 4..=31), lower half only unless 64-bit
    let kind: u32 = kani::any(); kani::assume(kind < 16);
    let io = kind & 1 == 1;
    let k: u32 = kani::any(); kani::assume(k >= 4 && k <= 31);
    let mask: u32 = !((1u32 << k) - 1);
    cfg.bar_mask[s] = mask;
    cfg.words[4 + s] = (kani::any::<u32>() & mask) | if io { kind & 0b11 } else { kind };
    let is64 = !io && (kind & 0b110) == 0b100;
    if is64 && s < 5 { cfg.bar_mask[s + 1] = 0xffff_ffff; cfg.words[5 + s] = kani::any(); }
    let exclude_f4: bool = true;
    if exclude_f4 { kani::assume(!(is64 && s == 5)); }
    let saved = cfg.words;
    let mut root = PciRoot::new(cfg);
    let df = DeviceFunction { bus: 0, device: 0, function: 0 };
    let r = root.bar_info(df, slot);
    assert!(!root.configuration_access.unsafe_sizing);
    let mut i = 0; while i < 16 { assert!(root.configuration_access.words[i] == saved[i]); i += 1; }
    if let Ok(Some(BarInfo::Memory { size, address, .. })) = r {
        assert!(size == 1u64 << k);
        assert!(address & 0xffff_ffff == (saved[4 + s] & 0xffff_fff0) as u64);
    }
    if let Ok(Some(BarInfo::IO { size, .. })) = r { assert!(size == 1u32 << k); }
}
