use super::*;
use super::bus::{Cam, Command, MemoryBarType, BarInfo};
use crate::hal::BufferDirection;

// Reference PCI function: 64 config words; BARs with hardwired-zero low bits (size masks).
pub struct Cfg {
    pub words: [u32; 64],
    pub bar_mask: [u32; 6], // writable bits
    pub writes: u32,
}
impl ConfigurationAccess for Cfg {
    fn read_word(&self, _df: DeviceFunction, off: u8) -> u32 {
        assert!(off & 3 == 0);
        self.words[(off >> 2) as usize]
    }
    fn write_word(&mut self, _df: DeviceFunction, off: u8, data: u32) {
        assert!(off & 3 == 0);
        let i = (off >> 2) as usize;
        self.writes += 1;
        if i == 1 { self.words[1] = (self.words[1] & 0xffff_0000) | (data & 0xffff); }
        else if (4..10).contains(&i) {
            let m = self.bar_mask[i - 4];
            self.words[i] = (self.words[i] & !m) | (data & m);
        }
    }
    unsafe fn unsafe_clone(&self) -> Self { panic!() }
}

pub struct PHal;
pub static mut MAP_REQ_N: usize = 0;
pub static mut MAP_PADDR: [u64; 4] = [0; 4];
pub static mut MAP_SIZE: [usize; 4] = [0; 4];
pub static mut WINDOW: [u64; 32] = [0; 32]; // 256 bytes of fake MMIO, 8-aligned
unsafe impl Hal for PHal {
    fn dma_alloc(_p: usize, _d: BufferDirection, _a: bool) -> (PhysAddr, NonNull<u8>) { panic!() }
    unsafe fn dma_dealloc(_p: PhysAddr, _v: NonNull<u8>, _pages: usize, _a: bool) -> i32 { 0 }
    unsafe fn mmio_phys_to_virt(p: PhysAddr, s: usize) -> NonNull<u8> {
        unsafe {
            let i = MAP_REQ_N; MAP_PADDR[i] = p; MAP_SIZE[i] = s; MAP_REQ_N += 1;
            NonNull::new(core::ptr::addr_of_mut!(WINDOW) as *mut u8).unwrap()
        }
    }
    unsafe fn share(_b: NonNull<[u8]>, _d: BufferDirection, _a: bool) -> PhysAddr { 0 }
    unsafe fn unshare(_p: PhysAddr, _b: NonNull<[u8]>, _d: BufferDirection, _a: bool) {}
}

#[kani::proof]
#[kani::unwind(8)]
fn probe_p1_get_bar_region() {
    // one memory BAR (32-bit or 64-bit) at slot 0 with symbolic size and address
    let mut cfg = Cfg { words: [0; 64], bar_mask: [0; 6], writes: 0 };
    let k: u32 = kani::any(); kani::assume(k >= 4 && k <= 31);
    let is64: bool = kani::any();
    let mask_lo: u32 = !((1u32 << k) - 1);
    cfg.bar_mask[0] = mask_lo;
    let addr_lo: u32 = kani::any::<u32>() & mask_lo;
    cfg.words[4] = addr_lo | if is64 { 0b100 } else { 0 };
    if is64 { cfg.bar_mask[1] = 0xffff_ffff; cfg.words[5] = kani::any::<u32>() & 0x7fff_ffff; }
    cfg.words[1] = kani::any::<u32>() & 0x0000_07ff;
    let cmd0 = cfg.words[1];
    let w4 = cfg.words[4]; let w5 = cfg.words[5];
    let mut root = PciRoot::new(cfg);
    let df = DeviceFunction { bus: 0, device: 0, function: 0 };
    let info = VirtioCapabilityInfo { bar: 0, offset: kani::any(), length: kani::any() };
    let r = get_bar_region::<PHal, u32, Cfg>(&mut root, df, &info);
    // side-effect freedom
    assert!(root.configuration_access.words[1] == cmd0);
    assert!(root.configuration_access.words[4] == w4);
    assert!(root.configuration_access.words[5] == w5);
    let size: u64 = 1u64 << k;
    let base: u64 = (addr_lo as u64) | if is64 { (w5 as u64) << 32 } else { 0 };
    if r.is_ok() {
        assert!(base != 0);
        assert!(info.offset as u64 + info.length as u64 <= size);
        assert!(info.length >= 4);
        unsafe { assert!(MAP_REQ_N == 1 && MAP_PADDR[0] == base + info.offset as u64 && MAP_SIZE[0] == info.length as usize); }
    }
}

#[kani::proof]
#[kani::unwind(8)]
fn probe_p2_new() {
    let mut cfg = Cfg { words: [0; 64], bar_mask: [0; 6], writes: 0 };
    cfg.words[0] = 0x1042_1af4; // block device, virtio vendor
    cfg.words[1] = (1u32 << 20) | (kani::any::<u32>() & 0x0000_0477);
    cfg.words[13] = 0x40;
    // BAR0: 32-bit memory BAR, 2^k bytes
    let k: u32 = kani::any(); kani::assume(k >= 4 && k <= 31);
    let mask_lo: u32 = !((1u32 << k) - 1);
    cfg.bar_mask[0] = mask_lo;
    cfg.words[4] = kani::any::<u32>() & mask_lo;
    let mut types = [0u8; 4]; let mut bars = [0u8; 4]; let mut offs = [0u32; 4]; let mut lens = [0u32; 4]; let mut clen = [0u8; 4];
    for i in 0..4 {
        let base = (0x40 + 0x14 * i) as usize; // 0x40, 0x54, 0x68, 0x7c
        let next: u32 = if i < 3 { (0x40 + 0x14 * (i + 1)) as u32 } else { 0 };
        types[i] = kani::any(); bars[i] = kani::any(); offs[i] = kani::any(); lens[i] = kani::any(); clen[i] = kani::any();
        kani::assume(bars[i] <= 5);
        // keep clear of the u32 overflow already found separately
        kani::assume((offs[i] as u64) + (lens[i] as u64) <= u32::MAX as u64);
        cfg.words[base / 4] = 0x09 | (next << 8) | ((clen[i] as u32) << 16) | ((types[i] as u32) << 24);
        cfg.words[base / 4 + 1] = bars[i] as u32;
        cfg.words[base / 4 + 2] = offs[i];
        cfg.words[base / 4 + 3] = lens[i];
        cfg.words[base / 4 + 4] = kani::any();
    }
    let saved = cfg.words;
    let mut root = PciRoot::new(cfg);
    let df = DeviceFunction { bus: 0, device: 0, function: 0 };
    let r = PciTransport::new::<PHal, Cfg>(&mut root, df);
    let ok = r.is_ok();
    // config space left as found
    let mut i = 0; while i < 6 { assert!(root.configuration_access.words[4 + i] == saved[4 + i]); i += 1; }
    assert!(root.configuration_access.words[1] == saved[1]);
    if let Ok(t) = r {
        // reference: first sufficiently long capability of each type
        let mut first_common = 4usize;
        let mut j = 0; while j < 4 { if first_common == 4 && types[j] == 1 && clen[j] >= 16 { first_common = j; } j += 1; }
        assert!(first_common < 4);
        let size = 1u64 << k;
        assert!(bars[first_common] == 0);
        assert!(offs[first_common] as u64 + lens[first_common] as u64 <= size);
        assert!(lens[first_common] as usize >= core::mem::size_of::<CommonCfg>());
        unsafe {
            assert!(MAP_REQ_N >= 3);
            assert!(MAP_PADDR[0] == (saved[4] & 0xffff_fff0) as u64 + offs[first_common] as u64);
            assert!(MAP_SIZE[0] == lens[first_common] as usize);
        }
        core::mem::forget(t);
    }
    kani::cover!(ok);
}
