#!/bin/bash
# usage: run.sh <harness> <timeout_s> [extra kani args]
h=$1; to=$2; shift 2
cd /tmp/probe/vd
ulimit -v 16000000
start=$(date +%s)
CARGO_NET_OFFLINE=true timeout $to cargo kani --harness "$h" "$@" > /tmp/probe/log.$h 2>&1
rc=$?
end=$(date +%s)
echo "harness=$h rc=$rc wall=$((end-start))s"
grep -E "VERIFICATION|Status: (FAILURE|ERROR)|Runtime|unwinding|error(\[|:)|Failed Checks|Verification Time|Summary|Complete" /tmp/probe/log.$h | sort | uniq -c | sort -rn | head -30
