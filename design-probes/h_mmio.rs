use super::*;


pub static mut BASE: usize = 0;
pub static mut TR_N: usize = 0;
pub static mut TR_OFF: [u16; 24] = [0; 24];
pub static mut TR_VAL: [u32; 24] = [0; 24];
pub static mut TR_W: [bool; 24] = [false; 24];
// device-side register file served on reads
pub static mut R_MAGIC: u32 = 0;
pub static mut R_VERSION: u32 = 0;
pub static mut R_DEVID: u32 = 0;
pub static mut R_READY: u32 = 0;

fn log(off: usize, w: bool, v: u32) {
    unsafe {
        assert!(TR_N < 24);
        TR_OFF[TR_N] = off as u16; TR_VAL[TR_N] = v; TR_W[TR_N] = w; TR_N += 1;
    }
}

struct KOps;
impl KOps {
    unsafe fn read_u8(_s: *const u8) -> u8 { panic!("u8 read") }
    unsafe fn read_u16(_s: *const u16) -> u16 { panic!("u16 read") }
    unsafe fn read_u32(s: *const u32) -> u32 {
        let off = unsafe { (s as usize) - BASE };
        let v = unsafe { match off { 0 => R_MAGIC, 4 => R_VERSION, 8 => R_DEVID, 0x44 => R_READY, _ => kani::any() } };
        log(off, false, v);
        v
    }
    unsafe fn read_u64(_s: *const u64) -> u64 { panic!("u64 read") }
    unsafe fn write_u8(_d: *mut u8, _v: u8) { panic!("u8 write") }
    unsafe fn write_u16(_d: *mut u16, _v: u16) { panic!("u16 write") }
    unsafe fn write_u32(d: *mut u32, v: u32) {
        let off = unsafe { (d as usize) - BASE };
        log(off, true, v);
    }
    unsafe fn write_u64(_d: *mut u64, _v: u64) { panic!("u64 write") }
}


#[kani::proof]
#[kani::stub(<safe_mmio::backend::volatile::Ops as safe_mmio::MmioOps>::read_u32, KOps::read_u32)]
#[kani::stub(<safe_mmio::backend::volatile::Ops as safe_mmio::MmioOps>::write_u32, KOps::write_u32)]
#[kani::unwind(26)]
fn probe_m1_queue_set_modern() {
    let mut regs = [0u32; 64 + 4];
    unsafe {
        BASE = regs.as_mut_ptr() as usize;
        R_MAGIC = kani::any(); R_VERSION = kani::any(); R_DEVID = kani::any();
    }
    let header = NonNull::new(regs.as_mut_ptr() as *mut VirtIOHeader).unwrap();
    let size: usize = kani::any();
    let r = unsafe { MmioTransport::new(header, size) };
    unsafe {
        // probing writes nothing
        let mut i = 0; while i < TR_N { assert!(!TR_W[i]); i += 1; }
    }
    match r {
        Err(_) => {
            unsafe { assert!(size < 0x100 || R_MAGIC != 0x7472_6976 || !(R_VERSION == 1 || R_VERSION == 2) || DeviceType::try_from(R_DEVID).is_err()); }
        }
        Ok(mut t) => {
            unsafe { assert!(size >= 0x100 && R_MAGIC == 0x7472_6976 && (R_VERSION == 1 || R_VERSION == 2)); }
            if t.version() == MmioVersion::Modern {
                unsafe { TR_N = 0; }
                let q: u16 = kani::any(); let sz: u32 = kani::any();
                let d: u64 = kani::any(); let a: u64 = kani::any(); let u: u64 = kani::any();
                t.queue_set(q, sz, d, a, u);
                unsafe {
                    assert!(TR_N == 9);
                    assert!(TR_OFF[0] == 0x30 && TR_VAL[0] == q as u32 && TR_W[0]);
                    assert!(TR_OFF[1] == 0x38 && TR_VAL[1] == sz);
                    assert!(TR_OFF[2] == 0x80 && TR_VAL[2] == d as u32);
                    assert!(TR_OFF[3] == 0x84 && TR_VAL[3] == (d >> 32) as u32);
                    assert!(TR_OFF[8] == 0x44 && TR_VAL[8] == 1);
                }
            }
            core::mem::forget(t);
        }
    }
}
