use super::*;
use crate::queue::verif_kani::{Backing, KHalT, any_backing, mk_queue, share_ptr};
use crate::transport::{DeviceStatus, DeviceType};
use alloc::boxed::Box;

pub static mut B_EV: *mut Backing<32> = core::ptr::null_mut();
pub static mut L_EV: u16 = 0;
pub static mut NOTIFIED_EV: u32 = 0;

pub struct ST;
impl Transport for ST {
    fn device_type(&self) -> DeviceType { DeviceType::Sound }
    fn read_device_features(&mut self) -> u64 { 0 }
    fn write_driver_features(&mut self, _f: u64) {}
    fn max_queue_size(&mut self, _q: u16) -> u32 { 32 }
    fn notify(&mut self, q: u16) { if q == 1 { unsafe { NOTIFIED_EV += 1; } } }
    fn get_status(&self) -> DeviceStatus { DeviceStatus::empty() }
    fn set_status(&mut self, _s: DeviceStatus) {}
    fn set_guest_page_size(&mut self, _g: u32) {}
    fn requires_legacy_layout(&self) -> bool { false }
    fn queue_set(&mut self, _q: u16, _s: u32, _d: crate::PhysAddr, _a: crate::PhysAddr, _u: crate::PhysAddr) {}
    fn queue_unset(&mut self, _q: u16) {}
    fn queue_used(&mut self, _q: u16) -> bool { false }
    fn ack_interrupt(&mut self) -> InterruptStatus { InterruptStatus::empty() }
    fn read_config_generation(&self) -> u32 { 0 }
    fn read_config_space<T: FromBytes + IntoBytes>(&self, _o: usize) -> crate::Result<T> { Ok(T::new_zeroed()) }
    fn write_config_space<T: IntoBytes + Immutable>(&mut self, _o: usize, _v: T) -> crate::Result<()> { Ok(()) }
}

#[kani::proof]
#[kani::unwind(34)]
fn probe_s2_sound_notification() {
    let bc = Box::leak(Box::new(any_backing::<32>()));
    let be = Box::leak(Box::new(any_backing::<32>()));
    let bt = Box::leak(Box::new(any_backing::<32>()));
    let br = Box::leak(Box::new(any_backing::<32>()));
    unsafe { B_EV = be; }
    let event_queue = OwningQueue::new(mk_queue::<KHalT<32>, 32>(be, 1, false, false)).unwrap();
    let mut snd = VirtIOSound::<KHalT<32>, ST> {
        transport: ST,
        control_queue: mk_queue(bc, 0, false, false),
        event_queue,
        tx_queue: mk_queue(bt, 2, false, false),
        rx_queue: mk_queue(br, 3, false, false),
        negotiated_features: Feature::empty(),
        jacks: 0, streams: 0, chmaps: 0,
        pcm_infos: None, jack_infos: None, chmap_infos: None,
        pcm_parameters: vec![],
        queue_buf_send: FromZeros::new_box_zeroed_with_elems(PAGE_SIZE).unwrap(),
        queue_buf_recv: FromZeros::new_box_zeroed_with_elems(PAGE_SIZE).unwrap(),
        set_up: false, token_rsp: BTreeMap::new(), pcm_states: vec![], token_buf: BTreeMap::new(),
    };
    // device completes a symbolic posted token with a PCM_XRUN event
    let tok: u16 = kani::any(); kani::assume(tok < 32);
    let data: u32 = kani::any();
    unsafe {
        let b = &mut *B_EV;
        let (addr, len, fl, _n) = b.dev_desc(tok);
        assert!(len == 8 && fl == 2);
        let p = share_ptr(addr);
        (p as *mut u32).write_unaligned(0x1101);
        (p.add(4) as *mut u32).write_unaligned(data);
        b.dev_complete(&mut *core::ptr::addr_of_mut!(L_EV), tok, 8);
    }
    let n = snd.latest_notification().unwrap().unwrap();
    assert!(n.data == data);
    unsafe {
        let b = &*B_EV;
        // re-posted under the same token: avail idx advanced to 33, slot 32&31 = 0 holds tok
        assert!(b.dev_avail_idx() == 33);
        assert!(b.dev_avail_slot(0) == tok);
        assert!(NOTIFIED_EV == 1);
    }
    core::mem::forget(snd);
}
