use super::*;
use crate::queue::verif_kani::KHalT;
use crate::transport::{DeviceStatus, DeviceType};
use zerocopy::Immutable;

pub static mut LOG_N: usize = 0;
pub static mut LOG: [u8; 24] = [0; 24]; // 1=status0 2=ack|driver 3=read_feat 4=write_feat 5=features_ok 6=queue_set 7=notify 8=driver_ok
fn lg(e: u8) { unsafe { if LOG_N < 24 { LOG[LOG_N] = e; LOG_N += 1; } } }
pub struct IT { pub status: DeviceStatus, pub offered: u64, pub written: u64 }
impl Transport for IT {
    fn device_type(&self) -> DeviceType { DeviceType::Input }
    fn read_device_features(&mut self) -> u64 { lg(3); self.offered }
    fn write_driver_features(&mut self, f: u64) { lg(4); self.written = f; }
    fn max_queue_size(&mut self, _q: u16) -> u32 { 32 }
    fn notify(&mut self, _q: u16) { lg(7); }
    fn get_status(&self) -> DeviceStatus { self.status }
    fn set_status(&mut self, s: DeviceStatus) {
        if s.is_empty() { lg(1); } else if s.contains(DeviceStatus::DRIVER_OK) { lg(8); }
        else if s.contains(DeviceStatus::FEATURES_OK) { lg(5); } else { lg(2); }
        self.status = s;
    }
    fn set_guest_page_size(&mut self, _g: u32) {}
    fn requires_legacy_layout(&self) -> bool { false }
    fn queue_set(&mut self, _q: u16, _s: u32, _d: crate::PhysAddr, _a: crate::PhysAddr, _u: crate::PhysAddr) { lg(6); }
    fn queue_unset(&mut self, _q: u16) {}
    fn queue_used(&mut self, _q: u16) -> bool { false }
    fn ack_interrupt(&mut self) -> InterruptStatus { InterruptStatus::empty() }
    fn read_config_generation(&self) -> u32 { 0 }
    fn read_config_space<T: FromBytes + IntoBytes>(&self, _o: usize) -> Result<T, Error> { Ok(T::new_zeroed()) }
    fn write_config_space<T: IntoBytes + Immutable>(&mut self, _o: usize, _v: T) -> Result<(), Error> { Ok(()) }
}

#[kani::proof]
#[kani::unwind(34)]
fn probe_i1_input_init() {
    let offered: u64 = kani::any();
    // direct descriptors only in this probe
    kani::assume(offered & (1 << 28) == 0);
    let t = IT { status: DeviceStatus::empty(), offered, written: 0 };
    let d = VirtIOInput::<KHalT<32>, IT>::new(t).unwrap();
    assert!(d.transport.written & !offered == 0);
    if offered & (1 << 32) != 0 { assert!(d.transport.written & (1 << 32) != 0); }
    unsafe {
        assert!(LOG[0] == 1 && LOG[1] == 2 && LOG[2] == 3 && LOG[3] == 4 && LOG[4] == 5);
        // no notify before DRIVER_OK
        let mut i = 0; let mut seen_ok = false;
        while i < LOG_N { if LOG[i] == 8 { seen_ok = true; } if LOG[i] == 7 { assert!(seen_ok, "C08: notify before DRIVER_OK"); } i += 1; }
        assert!(LOG[LOG_N - 1] == 8 || LOG[LOG_N - 1] == 7);
    }
    core::mem::forget(d);
}
