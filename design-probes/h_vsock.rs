use super::*;
use crate::queue::verif_kani::{Backing, KHalT, any_backing, mk_queue, share_ptr};
use crate::transport::{DeviceStatus, DeviceType, InterruptStatus};
use crate::device::socket::{VsockAddr, VsockConnectionManager};
use zerocopy::Immutable;
use alloc::boxed::Box;
use core::ptr::NonNull;

pub static mut B_RX: *mut Backing<8> = core::ptr::null_mut();
pub static mut B_TX: *mut Backing<8> = core::ptr::null_mut();
pub static mut L_RX: u16 = 0;
pub static mut L_TX: u16 = 0;
pub static mut TX_HDR: [u8; 44] = [0; 44];
pub static mut TX_COUNT: usize = 0;

pub struct T2;
impl Transport for T2 {
    fn device_type(&self) -> DeviceType { DeviceType::Socket }
    fn read_device_features(&mut self) -> u64 { 0 }
    fn write_driver_features(&mut self, _f: u64) {}
    fn max_queue_size(&mut self, _q: u16) -> u32 { 8 }
    fn notify(&mut self, q: u16) {
        if q != 1 { return; }
        unsafe {
            let b = &mut *B_TX;
            if let Some(head) = b.dev_take(L_TX) {
                let (addr, len, _fl, _nx) = b.dev_desc(head);
                assert!(len == 44);
                let p = share_ptr(addr);
                core::ptr::copy_nonoverlapping(p, core::ptr::addr_of_mut!(TX_HDR) as *mut u8, 44);
                TX_COUNT += 1;
                b.dev_complete(&mut *core::ptr::addr_of_mut!(L_TX), head, 0);
            }
        }
    }
    fn get_status(&self) -> DeviceStatus { DeviceStatus::empty() }
    fn set_status(&mut self, _s: DeviceStatus) {}
    fn set_guest_page_size(&mut self, _g: u32) {}
    fn requires_legacy_layout(&self) -> bool { false }
    fn queue_set(&mut self, _q: u16, _s: u32, _d: crate::PhysAddr, _a: crate::PhysAddr, _u: crate::PhysAddr) {}
    fn queue_unset(&mut self, _q: u16) {}
    fn queue_used(&mut self, _q: u16) -> bool { false }
    fn ack_interrupt(&mut self) -> InterruptStatus { InterruptStatus::empty() }
    fn read_config_generation(&self) -> u32 { 0 }
    fn read_config_space<T: FromBytes + IntoBytes>(&self, _o: usize) -> crate::Result<T> { Ok(T::new_zeroed()) }
    fn write_config_space<T: IntoBytes + Immutable>(&mut self, _o: usize, _v: T) -> crate::Result<()> { Ok(()) }
}

fn mk_socket() -> VirtIOSocket<KHalT<8>, T2, 64> {
    let brx = Box::leak(Box::new(any_backing::<8>()));
    let btx = Box::leak(Box::new(any_backing::<8>()));
    let bev = Box::leak(Box::new(any_backing::<8>()));
    unsafe { B_RX = brx; B_TX = btx; }
    let rx = OwningQueue::new(mk_queue::<KHalT<8>, 8>(brx, 0, false, false)).unwrap();
    VirtIOSocket { transport: T2, rx, tx: mk_queue(btx, 1, false, false), event: mk_queue(bev, 2, false, false), guest_cid: 3 }
}

unsafe fn inject_rx(hdr: &[u8; 44]) {
    unsafe {
        let b = &mut *B_RX;
        let head = b.dev_take(L_RX).unwrap();
        let (addr, len, _fl, _nx) = b.dev_desc(head);
        assert!(len == 64);
        let p = share_ptr(addr);
        core::ptr::copy_nonoverlapping(hdr.as_ptr(), p, 44);
        b.dev_complete(&mut *core::ptr::addr_of_mut!(L_RX), head, 44);
    }
}

#[kani::proof]
#[kani::unwind(3)]
fn probe_v2_vsock_connect() {
    let sock = mk_socket();
    let mut m = VsockConnectionManager::new_with_capacity(sock, 8);
    let peer = VsockAddr { cid: kani::any(), port: kani::any() };
    let lport: u32 = kani::any();
    m.connect(peer, lport).unwrap();
    unsafe {
        assert!(TX_COUNT == 1);
        assert!(TX_HDR[30] == 1 && TX_HDR[31] == 0);
        assert!(TX_HDR[36] == 8);
    }
    let mut h = [0u8; 44];
    h[0..8].copy_from_slice(&peer.cid.to_le_bytes());
    h[8..16].copy_from_slice(&3u64.to_le_bytes());
    h[16..20].copy_from_slice(&peer.port.to_le_bytes());
    h[20..24].copy_from_slice(&lport.to_le_bytes());
    h[28] = 1;
    h[30] = 2;
    let ba: u32 = kani::any();
    h[36..40].copy_from_slice(&ba.to_le_bytes());
    unsafe { inject_rx(&h); }
    let ev = m.poll().unwrap().unwrap();
    assert!(ev.event_type == VsockEventType::Connected);
    assert!(ev.buffer_status.buffer_allocation == ba);
    assert!(m.is_connection_established(peer, lport).unwrap());
    core::mem::forget(m);
}

#[kani::proof]
#[kani::unwind(10)]
fn probe_v3_socket_only() {
    let mut sock = mk_socket();
    let peer = VsockAddr { cid: kani::any(), port: kani::any() };
    let lport: u32 = kani::any();
    let mut info = ConnectionInfo::new(peer, lport);
    info.buf_alloc = 8;
    sock.connect(&info).unwrap();
    unsafe {
        assert!(TX_COUNT == 1);
        assert!(TX_HDR[30] == 1 && TX_HDR[31] == 0);
        assert!(TX_HDR[36] == 8);
    }
    let mut h = [0u8; 44];
    h[0..8].copy_from_slice(&peer.cid.to_le_bytes());
    h[8..16].copy_from_slice(&3u64.to_le_bytes());
    h[16..20].copy_from_slice(&peer.port.to_le_bytes());
    h[20..24].copy_from_slice(&lport.to_le_bytes());
    h[28] = 1;
    h[30] = 2;
    let ba: u32 = kani::any();
    h[36..40].copy_from_slice(&ba.to_le_bytes());
    unsafe { inject_rx(&h); }
    let ev = sock.poll(|e, _b| Ok(Some(e))).unwrap().unwrap();
    assert!(ev.event_type == VsockEventType::Connected);
    assert!(ev.buffer_status.buffer_allocation == ba);
    assert!(ev.matches_connection(&info, 3));
    core::mem::forget(sock);
}

#[kani::proof]
#[kani::unwind(10)]
fn probe_v4_mgr_connect_only() {
    let sock = mk_socket();
    let mut m = VsockConnectionManager::new_with_capacity(sock, 8);
    let peer = VsockAddr { cid: kani::any(), port: kani::any() };
    let lport: u32 = kani::any();
    m.connect(peer, lport).unwrap();
    unsafe { assert!(TX_COUNT == 1); }
    core::mem::forget(m);
}

#[kani::proof]
#[kani::unwind(10)]
fn probe_v5_mgr_concrete() {
    let sock = mk_socket();
    let mut m = VsockConnectionManager::new_with_capacity(sock, 8);
    let peer = VsockAddr { cid: 2, port: 1000 };
    let lport: u32 = 77;
    m.connect(peer, lport).unwrap();
    let mut h = [0u8; 44];
    h[0..8].copy_from_slice(&peer.cid.to_le_bytes());
    h[8..16].copy_from_slice(&3u64.to_le_bytes());
    h[16..20].copy_from_slice(&peer.port.to_le_bytes());
    h[20..24].copy_from_slice(&lport.to_le_bytes());
    h[28] = 1;
    h[30] = 2;
    let ba: u32 = kani::any();
    h[36..40].copy_from_slice(&ba.to_le_bytes());
    unsafe { inject_rx(&h); }
    let ev = m.poll().unwrap().unwrap();
    assert!(ev.event_type == VsockEventType::Connected);
    assert!(ev.buffer_status.buffer_allocation == ba);
    core::mem::forget(m);
}

// ---- manager-level with stubbed driver I/O
pub static mut ST_EVENT: Option<VsockEvent> = None;
pub static mut ST_BODY: [u8; 8] = [0; 8];
pub static mut ST_BODY_LEN: usize = 0;
pub static mut ST_TX_N: usize = 0;
pub static mut ST_TX_OP: [u16; 4] = [0; 4];
pub static mut ST_TX_DST_PORT: [u32; 4] = [0; 4];

impl<H: Hal, T: Transport, const RX_BUFFER_SIZE: usize> VirtIOSocket<H, T, RX_BUFFER_SIZE> {
    fn stub_poll(
        &mut self,
        handler: impl FnOnce(VsockEvent, &[u8]) -> Result<Option<VsockEvent>>,
    ) -> Result<Option<VsockEvent>> {
        unsafe {
            match (*core::ptr::addr_of_mut!(ST_EVENT)).take() {
                None => Ok(None),
                Some(e) => { let b: &[u8; 8] = &*core::ptr::addr_of!(ST_BODY); handler(e, &b[..ST_BODY_LEN]) }
            }
        }
    }
    fn stub_send_packet(&mut self, header: &VirtioVsockHdr, _buffer: &[u8]) -> Result {
        unsafe {
            assert!(ST_TX_N < 4);
            ST_TX_OP[ST_TX_N] = header.op.get();
            ST_TX_DST_PORT[ST_TX_N] = header.dst_port.get();
            ST_TX_N += 1;
        }
        Ok(())
    }
}

#[kani::proof]
#[kani::stub(VirtIOSocket::poll, VirtIOSocket::stub_poll)]
#[kani::stub(VirtIOSocket::send_packet_to_tx_queue, VirtIOSocket::stub_send_packet)]
#[kani::unwind(10)]
fn probe_v6_mgr_stubbed() {
    let brx = Box::leak(Box::new(any_backing::<8>()));
    let btx = Box::leak(Box::new(any_backing::<8>()));
    let bev = Box::leak(Box::new(any_backing::<8>()));
    // rx is never used (poll is stubbed) so a plain queue wrapped by the real constructor is not needed;
    // use unwindset-free construction: OwningQueue::new would loop 8 times -> build socket via mk_socket in real harness
    let _ = (brx, btx, bev);
    let sock = mk_socket_small();
    let mut m = VsockConnectionManager::new_with_capacity(sock, 8);
    let peer = VsockAddr { cid: kani::any(), port: kani::any() };
    let lport: u32 = kani::any();
    m.connect(peer, lport).unwrap();
    let lp2: u32 = kani::any();
    m.listen(lp2);
    // arbitrary incoming event
    let src = VsockAddr { cid: kani::any(), port: kani::any() };
    let dst = VsockAddr { cid: kani::any(), port: kani::any() };
    let et = match kani::any::<u8>() % 6 {
        0 => VsockEventType::ConnectionRequest,
        1 => VsockEventType::Connected,
        2 => VsockEventType::Disconnected { reason: DisconnectReason::Reset },
        3 => VsockEventType::Disconnected { reason: DisconnectReason::Shutdown },
        4 => VsockEventType::CreditRequest,
        _ => VsockEventType::CreditUpdate,
    };
    unsafe {
        ST_EVENT = Some(VsockEvent { source: src, destination: dst,
            buffer_status: VsockBufferStatus { buffer_allocation: kani::any(), forward_count: kani::any() }, event_type: et.clone() });
        ST_BODY_LEN = 0;
        ST_TX_N = 0;
    }
    let r = m.poll();
    assert!(r.is_ok());
    let matches = src == peer && dst.cid == 3 && dst.port == lport;
    if !matches && et != VsockEventType::ConnectionRequest {
        assert!(r.as_ref().unwrap().is_none());
        unsafe { assert!(ST_TX_N == 0); }
    }
    if et == VsockEventType::ConnectionRequest && !matches && dst.cid == 3 {
        if dst.port == lp2 {
            unsafe { assert!(ST_TX_N == 1 && ST_TX_OP[0] == 2); }
        } else {
            unsafe { assert!(ST_TX_N == 1 && ST_TX_OP[0] == 3); }
            assert!(r.as_ref().unwrap().is_none());
        }
    }
    core::mem::forget(m);
}

fn mk_socket_small() -> VirtIOSocket<KHalT<8>, T2, 64> {
    // poll and tx are stubbed: the queues are never touched, so build them without posting buffers
    let brx = Box::leak(Box::new(any_backing::<8>()));
    let btx = Box::leak(Box::new(any_backing::<8>()));
    let bev = Box::leak(Box::new(any_backing::<8>()));
    let rxq = mk_queue::<KHalT<8>, 8>(brx, 0, false, false);
    let bufs: [NonNull<[u8; 64]>; 8] = [NonNull::dangling(); 8];
    let rx = crate::queue::owning::verif_mk(rxq, bufs);
    VirtIOSocket { transport: T2, rx, tx: mk_queue(btx, 1, false, false), event: mk_queue(bev, 2, false, false), guest_cid: 3 }
}

#[kani::proof]
fn probe_c17_credit_arith() {
    let mut ci = ConnectionInfo::new(VsockAddr { cid: 2, port: 1 }, 1);
    ci.peer_buf_alloc = kani::any();
    ci.peer_fwd_cnt = kani::any();
    ci.tx_cnt = kani::any();
    let inflight = ci.tx_cnt.wrapping_sub(ci.peer_fwd_cnt);
    let expect = ci.peer_buf_alloc.saturating_sub(inflight);
    assert!(ci.peer_free() == expect);
}
#[kani::proof]
fn probe_c17_fwd_wrap() {
    let mut ci = ConnectionInfo::new(VsockAddr { cid: 2, port: 1 }, 1);
    ci.fwd_cnt = kani::any();
    let n: usize = kani::any(); kani::assume(n <= 4096);
    let before = ci.fwd_cnt;
    ci.done_forwarding(n);
    assert!(ci.fwd_cnt == before.wrapping_add(n as u32));
}
