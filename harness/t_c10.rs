// @mount src/transport/mmio.rs
// @needs mm_env
//
// C10 - the MMIO transport performs exactly the register accesses the specification prescribes.
// Functions encoded: MmioTransport::{new, new_from_unique, vendor_id, version}, all of
// `impl Transport for MmioTransport`, Drop, SomeTransport::Mmio delegation, Transport::{begin_init, finish_init}.
#![allow(unused, unsafe_op_in_unsafe_fn, clippy::all, static_mut_refs)]
use super::*;
use crate::transport::__verif_mm_env::*;
use crate::transport::SomeTransport;

macro_rules! mmio_harness {
    ($(#[$m:meta])* fn $name:ident() $body:block) => {
        $(#[$m])*
        #[kani::stub(<safe_mmio::backend::volatile::Ops as safe_mmio::MmioOps>::read_u8, KOps::read_u8)]
        #[kani::stub(<safe_mmio::backend::volatile::Ops as safe_mmio::MmioOps>::read_u16, KOps::read_u16)]
        #[kani::stub(<safe_mmio::backend::volatile::Ops as safe_mmio::MmioOps>::read_u32, KOps::read_u32)]
        #[kani::stub(<safe_mmio::backend::volatile::Ops as safe_mmio::MmioOps>::read_u64, KOps::read_u64)]
        #[kani::stub(<safe_mmio::backend::volatile::Ops as safe_mmio::MmioOps>::write_u8, KOps::write_u8)]
        #[kani::stub(<safe_mmio::backend::volatile::Ops as safe_mmio::MmioOps>::write_u16, KOps::write_u16)]
        #[kani::stub(<safe_mmio::backend::volatile::Ops as safe_mmio::MmioOps>::write_u32, KOps::write_u32)]
        #[kani::stub(<safe_mmio::backend::volatile::Ops as safe_mmio::MmioOps>::write_u64, KOps::write_u64)]
        fn $name() $body
    };
}

const RO: [usize; 8] = [0x00, 0x04, 0x08, 0x0c, 0x10, 0x34, 0x60, 0xfc];
const WO: [usize; 15] = [0x14, 0x20, 0x24, 0x28, 0x30, 0x38, 0x3c, 0x50, 0x64, 0x80, 0x84, 0x90, 0x94, 0xa0, 0xa4];
const RW: [usize; 3] = [0x40, 0x44, 0x70];

/// every logged access is a 32-bit access to a defined register with a permitted direction
fn trace_wellformed(legacy: bool) {
    let mut i = 0;
    while i < MAXTR {
        if i < tr_len() {
            let (o, w, wd) = unsafe { (TR_OFF[i], TR_W[i], TR_WIDTH[i]) };
            assert!(wd == 4, "C10: register access that is not 32 bits wide");
            assert!(o <= 0xfc && o % 4 == 0, "C10: access outside the register block 0x000-0x0fc");
            let mut known = false;
            let mut ok = false;
            let mut k = 0;
            while k < 15 {
                if k < 8 && RO[k] == o { known = true; ok = !w; }
                if WO[k] == o { known = true; ok = w; }
                if k < 3 && RW[k] == o { known = true; ok = true; }
                k += 1;
            }
            assert!(known, "C10: access to an undefined/reserved register offset");
            assert!(ok, "C10: read of a write-only or write of a read-only register");
            if !legacy {
                assert!(o != 0x28 && o != 0x3c && o != 0x40, "C10: legacy-only register touched on a modern device");
            } else {
                assert!(o < 0x80 || o == 0xfc, "C10: modern-only register touched on a legacy device");
            }
        }
        i += 1;
    }
}

fn header_ptr() -> NonNull<VirtIOHeader> {
    NonNull::new(block_ptr() as *mut VirtIOHeader).unwrap()
}

fn mk(version: u32) -> MmioTransport<'static> {
    unsafe {
        DEV[0] = MAGIC_VALUE;
        DEV[1] = version;
        DEV[2] = 2; // block device
    }
    let t = unsafe { MmioTransport::new(header_ptr(), 0x180) }.unwrap();
    tr_reset();
    t
}

// ---- probing ---------------------------------------------------------------------------------------
// @harness props=C10 tier=quick timeout=600 stubbed=mmio
mmio_harness! {
#[kani::proof]
#[kani::unwind(26)]
fn c10_probe() {
    let (magic, version, devid): (u32, u32, u32) = (kani::any(), kani::any(), kani::any());
    unsafe {
        DEV[0] = magic;
        DEV[1] = version;
        DEV[2] = devid;
        DEV[3] = kani::any();
    }
    let size: usize = kani::any();
    let r = unsafe { MmioTransport::new(header_ptr(), size) };
    let mut i = 0;
    while i < MAXTR {
        if i < tr_len() {
            assert!(unsafe { !TR_W[i] }, "C10: probing must not write any register");
        }
        i += 1;
    }
    trace_wellformed(version == 1);
    let known_dev = DeviceType::try_from(devid).is_ok() && devid != 0;
    let should = magic == 0x7472_6976 && (version == 1 || version == 2) && known_dev && size >= 0x100;
    assert!(r.is_ok() == should, "C10: probe must accept exactly: correct magic, version 1 or 2, known non-zero device id, region >= 0x100 bytes");
    if let Ok(t) = r {
        assert!(t.version() == if version == 1 { MmioVersion::Legacy } else { MmioVersion::Modern }, "C10: version decoded wrongly");
        assert!(t.device_type() as u32 == devid || devid == 5, "C10: device type decoded wrongly"); // id 5 is reported as MemoryBalloon (13) by the crate: noted in DESIGN.md, not part of C10
        assert!(t.config_space.len() == size - 0x100, "C13: configuration window length must be the region size minus the register block");
        tr_reset();
        let v = t.vendor_id();
        assert!(tr_len() == 1 && tr_is(0, 0x0c, false, v), "C10: vendor_id must be one read of 0x00c");
        core::mem::forget(t);
    }
    kani::cover!(should && version == 1);
    kani::cover!(!should && magic == 0x7472_6976 && version == 3);
    kani::cover!(!should && size == 0xff);
}
}

// ---- every operation of the transport interface ----------------------------------------------------
fn ops_body<T: Transport>(t: &mut T, legacy: bool) {
    let op: u8 = kani::any();
    kani::assume(op < 14);
    let q: u16 = kani::any();
    match op {
        0 => {
            let (lo, hi): (u32, u32) = (kani::any(), kani::any());
            // the device answers according to the selector it was last given
            unsafe { SEL_OFF = 0x10; SEL_SRC_OFF = 0x14; SEL_VAL = [lo, hi]; }
            let f = t.read_device_features();
            assert!(tr_len() == 4 && tr_is(0, 0x14, true, 0) && tr_is(1, 0x10, false, lo) && tr_is(2, 0x14, true, 1) && tr_is(3, 0x10, false, hi),
                "C10: read_device_features must select word 0, read, select word 1, read");
            assert!(f == (lo as u64) | ((hi as u64) << 32), "C10: feature words combined wrongly (low word first, high word shifted by 32)");
        }
        1 => {
            let f: u64 = kani::any();
            t.write_driver_features(f);
            assert!(tr_len() == 4 && tr_is(0, 0x24, true, 0) && tr_is(1, 0x20, true, f as u32) && tr_is(2, 0x24, true, 1) && tr_is(3, 0x20, true, (f >> 32) as u32),
                "C10: write_driver_features must select word 0, write low, select word 1, write high");
        }
        2 => {
            let m: u32 = kani::any();
            unsafe { DEV[0x34 / 4] = m; }
            let r = t.max_queue_size(q);
            assert!(tr_len() == 2 && tr_is(0, 0x30, true, q as u32) && tr_is(1, 0x34, false, m) && r == m, "C10: max_queue_size must select the queue, then read QueueNumMax");
        }
        3 => {
            t.notify(q);
            assert!(tr_len() == 1 && tr_is(0, 0x50, true, q as u32), "C10: notify must be one write of the queue index to QueueNotify");
        }
        4 => {
            let s: u32 = kani::any();
            unsafe { DEV[0x70 / 4] = s; }
            let r = t.get_status();
            assert!(tr_len() == 1 && tr_is(0, 0x70, false, s) && r.bits() == s, "C10: get_status must be one read of Status");
        }
        5 => {
            let s: u32 = kani::any();
            t.set_status(DeviceStatus::from_bits_retain(s));
            assert!(tr_len() == 1 && tr_is(0, 0x70, true, s), "C10: set_status must be one write of Status");
        }
        6 => {
            let g: u32 = kani::any();
            t.set_guest_page_size(g);
            if legacy {
                assert!(tr_len() == 1 && tr_is(0, 0x28, true, g), "C10: legacy set_guest_page_size must write GuestPageSize");
            } else {
                assert!(tr_len() == 0, "C10: modern set_guest_page_size must not touch the device");
            }
            assert!(t.requires_legacy_layout() == legacy, "C10: requires_legacy_layout");
        }
        7 => {
            let size: u32 = kani::any();
            let (d, a, u): (u64, u64, u64) = (kani::any(), kani::any(), kani::any());
            if legacy {
                // what VirtQueue::new passes for a legacy layout (C06): contiguous, page aligned, 32-bit page frame number
                kani::assume(size <= 32768 && d % 4096 == 0 && d < (1u64 << 44));
                kani::assume(a == d + 16 * size as u64 && u == d + crate::align_up_phys(16 * size as u64 + 2 * (size as u64 + 3)));
            }
            t.queue_set(q, size, d, a, u);
            if legacy {
                assert!(tr_len() == 4 && tr_is(0, 0x30, true, q as u32) && tr_is(1, 0x38, true, size) && tr_is(2, 0x3c, true, 4096) && tr_is(3, 0x40, true, (d / 4096) as u32),
                    "C10: legacy queue_set must be QueueSel, QueueNum, QueueAlign=4096, QueuePFN=desc/4096");
            } else {
                assert!(tr_len() == 9 && tr_is(0, 0x30, true, q as u32) && tr_is(1, 0x38, true, size), "C10: modern queue_set must select the queue first, then write its size");
                assert!(tr_is(2, 0x80, true, d as u32) && tr_is(3, 0x84, true, (d >> 32) as u32), "C10: descriptor area low/high words");
                assert!(tr_is(4, 0x90, true, a as u32) && tr_is(5, 0x94, true, (a >> 32) as u32), "C10: driver area low/high words");
                assert!(tr_is(6, 0xa0, true, u as u32) && tr_is(7, 0xa4, true, (u >> 32) as u32), "C10: device area low/high words");
                assert!(tr_is(8, 0x44, true, 1), "C10: QueueReady must be written last, with 1");
            }
        }
        8 => {
            let j: u32 = kani::any();
            kani::assume(j <= 2);
            unsafe {
                POLL_OFF = 0x44;
                POLL_LEFT = j;
                POLL_BUSY_VAL = kani::any();
                kani::assume(POLL_BUSY_VAL != 0);
            }
            t.queue_unset(q);
            if legacy {
                assert!(tr_len() == 4 && tr_is(0, 0x30, true, q as u32) && tr_is(1, 0x38, true, 0) && tr_is(2, 0x3c, true, 0) && tr_is(3, 0x40, true, 0),
                    "C10: legacy queue_unset must select the queue and clear QueueNum, QueueAlign, QueuePFN");
            } else {
                let n = tr_len();
                assert!(n == 10 + j as usize, "C10: modern queue_unset access count (select, ready=0, poll until 0, clear size and six address words)");
                assert!(tr_is(0, 0x30, true, q as u32) && tr_is(1, 0x44, true, 0), "C10: modern queue_unset must select the queue then write QueueReady=0");
                let mut i = 0;
                while i < 3 {
                    if i <= j as usize {
                        assert!(unsafe { TR_OFF[2 + i] == 0x44 && !TR_W[2 + i] }, "C10: modern queue_unset must poll QueueReady until it reads 0");
                    }
                    i += 1;
                }
                let b = 3 + j as usize;
                assert!(tr_is(b, 0x38, true, 0) && tr_is(b + 1, 0x80, true, 0) && tr_is(b + 2, 0x84, true, 0) && tr_is(b + 3, 0x90, true, 0)
                    && tr_is(b + 4, 0x94, true, 0) && tr_is(b + 5, 0xa0, true, 0) && tr_is(b + 6, 0xa4, true, 0), "C10: modern queue_unset must zero the size and address registers only after the queue reads back not ready");
            }
        }
        9 => {
            let v: u32 = kani::any();
            unsafe { DEV[if legacy { 0x40 / 4 } else { 0x44 / 4 }] = v; }
            let r = t.queue_used(q);
            assert!(tr_len() == 2 && tr_is(0, 0x30, true, q as u32) && tr_is(1, if legacy { 0x40 } else { 0x44 }, false, v) && r == (v != 0),
                "C10: queue_used must select the queue, then read QueuePFN (legacy) / QueueReady (modern)");
        }
        10 => {
            let v: u32 = kani::any();
            unsafe { DEV[0x60 / 4] = v; }
            let r = t.ack_interrupt();
            if v != 0 {
                assert!(tr_len() == 2 && tr_is(0, 0x60, false, v) && tr_is(1, 0x64, true, v), "C10: ack_interrupt must read InterruptStatus and write the same bits to InterruptACK");
            } else {
                assert!(tr_len() == 1 && tr_is(0, 0x60, false, 0), "C10: ack_interrupt must not acknowledge when nothing is pending");
            }
            assert!(r.bits() == v & 3, "C10: interrupt status bits returned");
        }
        11 => {
            let v: u32 = kani::any();
            unsafe { DEV[0xfc / 4] = v; }
            let r = t.read_config_generation();
            assert!(tr_len() == 1 && tr_is(0, 0xfc, false, v) && r == v, "C10: read_config_generation must be one read of ConfigGeneration");
        }
        12 => {
            // begin_init / finish_init: status writes in order, features masked, page size only on legacy
            let (lo, hi): (u32, u32) = (kani::any(), kani::any());
            unsafe { SEL_OFF = 0x10; SEL_SRC_OFF = 0x14; SEL_VAL = [lo, hi]; }
            let offered = (lo as u64) | ((hi as u64) << 32);
            let supported: u64 = kani::any();
            let sup = crate::device::common::Feature::from_bits_retain(supported);
            // a driver supports VERSION_1 (C08 checks each driver's constant)
            kani::assume(supported & (1 << 32) != 0);
            let neg = t.begin_init(sup);
            let want = crate::device::common::Feature::from_bits_truncate(offered).bits() & supported;
            assert!(neg.bits() == want, "C08: negotiated features must be offered AND supported");
            assert!(tr_is(0, 0x70, true, 0) && tr_is(1, 0x70, true, 3), "C08: reset, then ACKNOWLEDGE|DRIVER");
            assert!(tr_is(2, 0x14, true, 0) && tr_is(3, 0x10, false, lo) && tr_is(4, 0x14, true, 1) && tr_is(5, 0x10, false, hi), "C08: device features read after ACKNOWLEDGE|DRIVER");
            assert!(tr_is(6, 0x24, true, 0) && tr_is(7, 0x20, true, want as u32) && tr_is(8, 0x24, true, 1) && tr_is(9, 0x20, true, (want >> 32) as u32), "C08: driver features written before FEATURES_OK");
            assert!(tr_is(10, 0x70, true, 11), "C08: FEATURES_OK set after the features are written");
            if legacy {
                assert!(tr_len() == 12 && tr_is(11, 0x28, true, 4096), "C10: legacy guest page size written during initialisation");
            } else {
                assert!(tr_len() == 11, "C10: no further access on a modern device");
            }
            tr_reset();
            t.finish_init();
            assert!(tr_len() == 1 && tr_is(0, 0x70, true, 15), "C08: finish_init sets DRIVER_OK on top of the other bits");
        }
        _ => {
            assert!(t.device_type() == DeviceType::Block, "C10: device type");
            assert!(tr_len() == 0, "C10: device_type must not touch the device");
        }
    }
    trace_wellformed(legacy);
    kani::cover!(op == 7 && q == 0xffff);
    kani::cover!(op == 8);
    kani::cover!(op == 12);
}

// @harness props=C10,C08 tier=quick timeout=900 stubbed=mmio
mmio_harness! {
#[kani::proof]
#[kani::unwind(30)]
fn c10_ops_modern() {
    let mut t = mk(2);
    ops_body(&mut t, false);
    tr_reset();
    drop(t);
    assert!(tr_len() == 1 && tr_is(0, 0x70, true, 0), "C10: dropping the transport must reset the device (Status = 0)");
}
}

// @harness props=C10,C08 tier=quick timeout=900 stubbed=mmio
mmio_harness! {
#[kani::proof]
#[kani::unwind(30)]
fn c10_ops_legacy() {
    let mut t = mk(1);
    ops_body(&mut t, true);
    tr_reset();
    drop(t);
    assert!(tr_len() == 1 && tr_is(0, 0x70, true, 0), "C10: dropping the transport must reset the device (Status = 0)");
}
}

// SomeTransport::Mmio delegates every method: same traces as the inner transport.
// @harness props=C10 tier=quick timeout=900 stubbed=mmio
mmio_harness! {
#[kani::proof]
#[kani::unwind(30)]
fn c10_some_modern() {
    let mut t = SomeTransport::Mmio(mk(2));
    ops_body(&mut t, false);
    tr_reset();
    drop(t);
    assert!(tr_len() == 1 && tr_is(0, 0x70, true, 0), "C10: dropping the transport must reset the device (Status = 0)");
}
}

// @harness props=C10 tier=thorough timeout=900 stubbed=mmio
mmio_harness! {
#[kani::proof]
#[kani::unwind(30)]
fn c10_some_legacy() {
    let mut t = SomeTransport::Mmio(mk(1));
    ops_body(&mut t, true);
    tr_reset();
    drop(t);
    assert!(tr_len() == 1 && tr_is(0, 0x70, true, 0), "C10: dropping the transport must reset the device (Status = 0)");
}
}
