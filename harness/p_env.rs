// @mount src/transport/pci.rs
// @needs mm_env
//
// PCI environment: reference PCI function behind ConfigurationAccess (64 configuration words, BARs with
// hard-wired low bits, command register, capability list, write log, "sizing while decoding" detector),
// a Hal whose mmio_phys_to_virt logs the request and maps window i into the traced register block.
#![allow(unused, unsafe_op_in_unsafe_fn, clippy::all, static_mut_refs)]
pub use super::bus::*;
pub use super::*;
pub use crate::hal::{BufferDirection, Hal, PhysAddr};
pub use crate::transport::__verif_mm_env::*;
pub use core::ptr::NonNull;

pub struct Cfg {
    pub words: [u32; 64],
    /// writable bits of each BAR register
    pub bar_mask: [u32; 6],
    pub writes: u32,
    /// a sizing pattern (all ones) was written to a BAR while IO/MEMORY decoding was enabled
    pub unsafe_sizing: bool,
    /// a write touched something other than the command register or a BAR
    pub foreign_write: bool,
}
pub fn cfg0() -> Cfg {
    Cfg { words: [0; 64], bar_mask: [0; 6], writes: 0, unsafe_sizing: false, foreign_write: false }
}
impl ConfigurationAccess for Cfg {
    fn read_word(&self, _df: DeviceFunction, off: u8) -> u32 {
        assert!(off & 3 == 0, "C12: unaligned configuration read");
        self.words[(off >> 2) as usize]
    }
    fn write_word(&mut self, _df: DeviceFunction, off: u8, data: u32) {
        assert!(off & 3 == 0, "C12: unaligned configuration write");
        let i = (off >> 2) as usize;
        self.writes += 1;
        if i == 1 {
            // status bits are write-one-to-clear / read-only: only the command half is stored
            self.words[1] = (self.words[1] & 0xffff_0000) | (data & 0xffff);
        } else if i >= 4 && i < 10 {
            if data == 0xffff_ffff && self.words[1] & 3 != 0 {
                self.unsafe_sizing = true;
            }
            let m = self.bar_mask[i - 4];
            self.words[i] = (self.words[i] & !m) | (data & m);
        } else {
            self.foreign_write = true;
        }
    }
    unsafe fn unsafe_clone(&self) -> Self {
        Cfg { words: self.words, bar_mask: self.bar_mask, writes: 0, unsafe_sizing: false, foreign_write: false }
    }
}

pub const WIN_OFF: [usize; 4] = [0x00, 0x40, 0xc0, 0x100];
pub static mut MAP_N: usize = 0;
pub static mut MAP_PADDR: [u64; 4] = [0; 4];
pub static mut MAP_SIZE: [usize; 4] = [0; 4];
pub struct PHal;
unsafe impl Hal for PHal {
    fn dma_alloc(_p: usize, _d: BufferDirection, _a: bool) -> (PhysAddr, NonNull<u8>) { panic!("harness: no DMA here") }
    unsafe fn dma_dealloc(_p: PhysAddr, _v: NonNull<u8>, _pages: usize, _a: bool) -> i32 { 0 }
    unsafe fn mmio_phys_to_virt(p: PhysAddr, s: usize) -> NonNull<u8> {
        let i = MAP_N;
        assert!(i < 4, "C11: more than four windows mapped");
        MAP_PADDR[i] = p;
        MAP_SIZE[i] = s;
        MAP_N += 1;
        NonNull::new(block_ptr().add(WIN_OFF[i])).unwrap()
    }
    unsafe fn share(_b: NonNull<[u8]>, _d: BufferDirection, _a: bool) -> PhysAddr { 0 }
    unsafe fn unshare(_p: PhysAddr, _b: NonNull<[u8]>, _d: BufferDirection, _a: bool) {}
}

pub const DF0: DeviceFunction = DeviceFunction { bus: 0, device: 0, function: 0 };

/// Install a memory BAR at `slot`: 2^k bytes, symbolic address (possibly 0 = unallocated), 32 or 64 bit.
/// Returns (size, base address).
pub fn install_mem_bar(cfg: &mut Cfg, slot: usize, k: u32, is64: bool, prefetch: bool) -> (u64, u64) {
    let (mask_lo, mask_hi): (u32, u32) = if k < 32 { (!((1u32 << k) - 1), 0xffff_ffff) } else { (0, !((1u32 << (k - 32)) - 1)) };
    let lo: u32 = kani::any::<u32>() & mask_lo & 0xffff_fff0;
    cfg.bar_mask[slot] = mask_lo & 0xffff_fff0;
    cfg.words[4 + slot] = lo | if is64 { 0b100 } else { 0 } | if prefetch { 0b1000 } else { 0 };
    let mut base = lo as u64;
    if is64 {
        let hi: u32 = kani::any::<u32>() & mask_hi;
        cfg.bar_mask[slot + 1] = mask_hi;
        cfg.words[5 + slot] = hi;
        base |= (hi as u64) << 32;
    }
    (1u64 << k, base)
}

macro_rules! pci_mmio_harness {
    ($(#[$m:meta])* fn $name:ident() $body:block) => {
        $(#[$m])*
        #[kani::stub(<safe_mmio::backend::volatile::Ops as safe_mmio::MmioOps>::read_u8, KOps::read_u8)]
        #[kani::stub(<safe_mmio::backend::volatile::Ops as safe_mmio::MmioOps>::read_u16, KOps::read_u16)]
        #[kani::stub(<safe_mmio::backend::volatile::Ops as safe_mmio::MmioOps>::read_u32, KOps::read_u32)]
        #[kani::stub(<safe_mmio::backend::volatile::Ops as safe_mmio::MmioOps>::read_u64, KOps::read_u64)]
        #[kani::stub(<safe_mmio::backend::volatile::Ops as safe_mmio::MmioOps>::write_u8, KOps::write_u8)]
        #[kani::stub(<safe_mmio::backend::volatile::Ops as safe_mmio::MmioOps>::write_u16, KOps::write_u16)]
        #[kani::stub(<safe_mmio::backend::volatile::Ops as safe_mmio::MmioOps>::write_u32, KOps::write_u32)]
        #[kani::stub(<safe_mmio::backend::volatile::Ops as safe_mmio::MmioOps>::write_u64, KOps::write_u64)]
        fn $name() $body
    };
}
pub(crate) use pci_mmio_harness;
