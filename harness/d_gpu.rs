// @mount src/device/gpu/mod.rs
// @needs q_env
//
// GPU driver against a reference GPU that decodes every command against the specification's structures (C20),
// handshake / EDID gating (C08), teardown (C09), EDID parsing on arbitrary blobs (C20, C07).
// Functions encoded: VirtIOGpu::{new, resolution, get_edid, change_resolution, flush, move_cursor, request,
// cursor_request and the request helpers, check_type}, Edid::{preferred_resolution, standard_timings}, Drop.
#![allow(unused, unsafe_op_in_unsafe_fn, clippy::all, static_mut_refs)]
use super::*;
use crate::queue::__verif_q_env::*;
use crate::transport::DeviceType;

const N: usize = QUEUE_SIZE as usize;
const MAXCMD: usize = 8;
static mut CMD_N: usize = 0;
static mut CMD_T: [u32; MAXCMD] = [0; MAXCMD];
static mut CMD_A: [[u32; 8]; MAXCMD] = [[0; 8]; MAXCMD]; // the eight 32-bit words after the 24-byte header
static mut CMD_HDR_CLEAN: bool = true;
static mut RESP_T: [u32; MAXCMD] = [0; MAXCMD]; // response type per command ordinal (0 = the success type)
static mut DISP: [u32; 4] = [0; 4];
static mut EDID_SIZE: u32 = 0;
static mut EDID_K: usize = 0;
static mut EDID_BYTE: u8 = 0;
static mut ATTACHED: [(u32, u64, u32); 2] = [(0, 0, 0); 2]; // (resource, addr, len)
static mut CUR_N: usize = 0;
static mut CUR_T: u32 = 0;
static mut CUR_A: [u32; 8] = [0; 8];

fn ok_type(cmd: u32) -> u32 {
    match cmd { 0x100 => 0x1101, 0x10a => 0x1104, _ => 0x1100 }
}

struct GpuDev;
impl DevModel for GpuDev {
    fn on_notify(q: u16) {
        unsafe {
            if q == QUEUE_TRANSMIT {
                if let Some(head) = dev_take::<N>(0) {
                    let c = dev_chain::<N>(0, head, false);
                    assert!(c.n == 2 && !c.write[0] && c.write[1], "C20: a control command is one readable request and one writable response");
                    let i = CMD_N;
                    assert!(i < MAXCMD, "C20: more commands than the operation allows");
                    let ty = dev_rd_u32w(&c, 0, 0);
                    CMD_T[i] = ty;
                    // flags, fence id, context id, padding must be zero (no fencing, no 3D context)
                    let mut k = 4;
                    while k < 24 {
                        if dev_rd_u32w(&c, 0, k) != 0 { CMD_HDR_CLEAN = false; }
                        k += 4;
                    }
                    let mut w = 0;
                    while w < 8 {
                        CMD_A[i][w] = dev_rd_u32w(&c, 0, 24 + 4 * w);
                        w += 1;
                    }
                    // resource model: backing attached / detached
                    if ty == 0x106 {
                        let addr = (CMD_A[i][2] as u64) | ((CMD_A[i][3] as u64) << 32);
                        let slot = if ATTACHED[0].1 == 0 { 0 } else { 1 };
                        ATTACHED[slot] = (CMD_A[i][0], addr, CMD_A[i][4]);
                        DMA_PROTECTED[slot] = addr;
                        let di = dma_index(addr);
                        assert!(di.is_some() && DMA[di.unwrap()].live, "C20: backing address is not live DMA memory");
                        assert!(CMD_A[i][4] as usize <= DMA[di.unwrap()].pages * 4096, "C20: backing memory does not cover the advertised length");
                    }
                    if ty == 0x107 || ty == 0x102 {
                        let mut s = 0;
                        while s < 2 {
                            if ATTACHED[s].1 != 0 && ATTACHED[s].0 == CMD_A[i][0] {
                                ATTACHED[s] = (0, 0, 0);
                                DMA_PROTECTED[s] = 0;
                            }
                            s += 1;
                        }
                    }
                    let rt = if RESP_T[i] == 0 { ok_type(ty) } else { RESP_T[i] };
                    dev_wr_u32w(&c, 1, 0, rt);
                    if ty == 0x100 {
                        let mut w = 0;
                        while w < 4 {
                            dev_wr_u32w(&c, 1, 24 + 4 * w, DISP[w]);
                            w += 1;
                        }
                    }
                    if ty == 0x10a {
                        dev_wr_u32w(&c, 1, 24, EDID_SIZE);
                        dev_wr(&c, 1, 32 + EDID_K, EDID_BYTE);
                    }
                    CMD_N += 1;
                    dev_complete::<N>(0, head, 4096);
                }
            } else {
                assert!(q == QUEUE_CURSOR, "C20: notification for a queue the GPU does not have");
                if let Some(head) = dev_take::<N>(1) {
                    let c = dev_chain::<N>(1, head, false);
                    assert!(c.n == 1 && !c.write[0], "C20: a cursor command is one readable request");
                    CUR_T = dev_rd_u32w(&c, 0, 0);
                    let mut w = 0;
                    while w < 8 {
                        CUR_A[w] = dev_rd_u32w(&c, 0, 24 + 4 * w);
                        w += 1;
                    }
                    CUR_N += 1;
                    dev_complete::<N>(1, head, 0);
                }
            }
        }
    }
}
type Gpu = VirtIOGpu<THal<N>, MT<GpuDev>>;

fn mk() -> Gpu {
    lg_init_concrete();
    let mut t = mt::<GpuDev>(DeviceType::GPU, 0);
    unsafe { DRIVER_OK_SEEN = true; DMA_RING_ALLOCS = 4; }
    let control_queue = VirtQueue::new(&mut t, QUEUE_TRANSMIT, false, kani::any(), false).unwrap();
    let cursor_queue = VirtQueue::new(&mut t, QUEUE_CURSOR, false, kani::any(), false).unwrap();
    VirtIOGpu {
        transport: t,
        rect: None,
        frame_buffer_dma: None,
        cursor_buffer_dma: None,
        control_queue,
        cursor_queue,
        queue_buf_send: FromZeros::new_box_zeroed_with_elems(PAGE_SIZE).unwrap(),
        queue_buf_recv: FromZeros::new_box_zeroed_with_elems(PAGE_SIZE).unwrap(),
        has_edid: kani::any(),
        access_platform: false,
    }
}

// change_resolution (fresh and with an existing framebuffer) and flush: command order and contents
// (not registered: CBMC aborts with std::bad_alloc at the 22 GB cap after ~400 s)
#[cfg(any())]
fn c20_gpu_change_resolution_flush() {
    let mut gpu = mk();
    let (w, h): (u32, u32) = (kani::any(), kani::any());
    kani::assume(w >= 1 && w <= 32 && h >= 1 && h <= 32);
    let fb_len = gpu.change_resolution(w, h).map(|b| b.len());
    unsafe {
        assert!(fb_len.is_ok(), "C20: change_resolution with a device that never errs");
        assert!(CMD_N == 3 && CMD_T[0] == 0x101 && CMD_T[1] == 0x106 && CMD_T[2] == 0x103, "C20: a new framebuffer is set up as create resource, attach backing, set scanout - in that order");
        assert!(CMD_HDR_CLEAN, "C20: command header flags/fence/context must be zero");
        assert!(CMD_A[0][0] == 0xbabe && CMD_A[0][1] == 1 && CMD_A[0][2] == w && CMD_A[0][3] == h, "C20: RESOURCE_CREATE_2D fields (resource id, format B8G8R8A8, width, height)");
        let addr = (CMD_A[1][2] as u64) | ((CMD_A[1][3] as u64) << 32);
        assert!(CMD_A[1][0] == 0xbabe && CMD_A[1][1] == 1 && CMD_A[1][4] == w * h * 4 && addr == DMA[4].paddr, "C20: RESOURCE_ATTACH_BACKING fields (resource id, one entry, address and length of the framebuffer memory)");
        assert!(CMD_A[2][0] == 0 && CMD_A[2][1] == 0 && CMD_A[2][2] == w && CMD_A[2][3] == h && CMD_A[2][4] == 0 && CMD_A[2][5] == 0xbabe, "C20: SET_SCANOUT fields (rect, scanout id, resource id)");
        assert!(fb_len.unwrap() >= (w * h * 4) as usize, "C20: framebuffer handed to the caller must cover the resolution");
        assert!(DMA[4].live && DMA[4].dir == D2D, "C20: framebuffer memory must stay allocated while attached");
        CMD_N = 0;
    }
    let r = gpu.flush();
    unsafe {
        assert!(r.is_ok() && CMD_N == 2 && CMD_T[0] == 0x105 && CMD_T[1] == 0x104, "C20: flush is transfer-to-host then resource-flush");
        assert!(CMD_A[0][0] == 0 && CMD_A[0][1] == 0 && CMD_A[0][2] == w && CMD_A[0][3] == h && CMD_A[0][4] == 0 && CMD_A[0][5] == 0 && CMD_A[0][6] == 0xbabe, "C20: TRANSFER_TO_HOST_2D fields (rect, offset 0, resource id)");
        assert!(CMD_A[1][2] == w && CMD_A[1][3] == h && CMD_A[1][4] == 0xbabe, "C20: RESOURCE_FLUSH fields (rect, resource id)");
        CMD_N = 0;
    }
    // a second resolution change tears the old framebuffer down first and only then releases its memory
    let (w2, h2): (u32, u32) = (kani::any(), kani::any());
    kani::assume(w2 >= 1 && w2 <= 32 && h2 >= 1 && h2 <= 32);
    let r2 = gpu.change_resolution(w2, h2).map(|b| b.len());
    unsafe {
        assert!(r2.is_ok() && CMD_N == 6, "C20: second change_resolution");
        assert!(CMD_T[0] == 0x103 && CMD_A[0][5] == 0 && CMD_T[1] == 0x107 && CMD_A[1][0] == 0xbabe && CMD_T[2] == 0x102 && CMD_A[2][0] == 0xbabe, "C20: tear-down is disable scanout, detach backing, unref - before anything is released");
        assert!(CMD_T[3] == 0x101 && CMD_T[4] == 0x106 && CMD_T[5] == 0x103, "C20: then create, attach, set scanout again");
        assert!(!DMA[4].live && DMA[4].deallocs == 1 && DMA[5].live, "C20: the old framebuffer memory is released exactly once, the new one stays");
        assert!(CMD_A[4][4] == w2 * h2 * 4, "C20: new backing length");
    }
    core::mem::forget(gpu);
    kani::cover!(w == 32 && h == 32 && w2 == 1);
    kani::cover!(w == 3 && h == 5);
}

// every request helper returns an error for any response that is not the expected success type
// (not registered: CBMC aborts with std::bad_alloc at the 22 GB cap after ~400 s)
#[cfg(any())]
fn c20_gpu_error_responses() {
    let mut gpu = mk();
    gpu.has_edid = true;
    let rt: u32 = kani::any();
    unsafe { RESP_T[0] = rt; }
    let op: u8 = kani::any();
    kani::assume(op < 5);
    let (ok, want_ok_type) = match op {
        0 => (gpu.resolution().is_ok(), 0x1101),
        1 => (gpu.get_edid(0).is_ok(), 0x1104),
        2 => { gpu.rect = Some(Rect { x: 0, y: 0, width: 1, height: 1 }); (gpu.flush().is_ok(), 0x1100) }
        3 => (gpu.change_resolution(2, 2).is_ok(), 0x1100),
        _ => (gpu.resource_unref(7).is_ok(), 0x1100),
    };
    if rt != 0 && rt != want_ok_type {
        assert!(!ok, "C20: a response that is not the expected success type must be reported as an error");
        assert!(unsafe { CMD_N } == 1, "C20: the operation must stop at the first failed command");
    }
    if rt == 0 || rt == want_ok_type { assert!(ok, "C20: success responses must be accepted"); }
    core::mem::forget(gpu);
    kani::cover!(!ok && op == 3);
    kani::cover!(ok && op == 1);
    kani::cover!(rt == 0x1200);
}

// returned values equal what the device reported; EDID is feature-gated; cursor move encoding
// (not registered: CBMC aborts with std::bad_alloc at the 22 GB cap after ~400 s)
#[cfg(any())]
fn c20_gpu_info_edid_cursor() {
    let mut gpu = mk();
    unsafe {
        DISP = kani::any();
        EDID_SIZE = kani::any();
        EDID_K = match kani::any::<u8>() % 3 { 0 => 0, 1 => 0x38, _ => 1023 };
        EDID_BYTE = kani::any();
    }
    let r = gpu.resolution();
    unsafe {
        assert!(CMD_N == 1 && CMD_T[0] == 0x100 && CMD_HDR_CLEAN, "C20: GET_DISPLAY_INFO command");
        assert!(r == Ok((DISP[2], DISP[3])), "C20: resolution must be what the device reported");
        CMD_N = 0;
    }
    let sc: u32 = kani::any();
    let e = gpu.get_edid(sc);
    let e_ok = e.is_ok();
    unsafe {
        if gpu.has_edid {
            assert!(CMD_N == 1 && CMD_T[0] == 0x10a && CMD_A[0][0] == sc, "C20: GET_EDID command (scanout id)");
            let ed = e.unwrap();
            assert!(ed.size == EDID_SIZE && ed.data[EDID_K] == EDID_BYTE, "C20: EDID blob must be what the device reported");
        } else {
            assert!(CMD_N == 0 && matches!(e, Err(Error::Unsupported)), "C08: EDID must not be requested unless the feature was negotiated");
        }
    }
    let (x, y): (u32, u32) = (kani::any(), kani::any());
    let m = gpu.move_cursor(x, y);
    unsafe {
        assert!(m.is_ok() && CUR_N == 1 && CUR_T == 0x301 && CUR_A[0] == 0 && CUR_A[1] == x && CUR_A[2] == y && CUR_A[4] == 0xdade, "C20: MOVE_CURSOR fields (scanout, x, y, resource id)");
    }
    core::mem::forget(gpu);
    kani::cover!(e_ok);
    kani::cover!(x == 0xffff_ffff);
}
fn gpu_has(e: &Result<Edid>) -> bool { e.is_ok() }

// EDID parsing on an arbitrary blob and size
// @harness props=C20,C07 tier=quick timeout=2400
#[kani::proof]
#[kani::unwind(12)]
fn c20_edid_preferred() {
    let ed = Edid { data: kani::any(), size: kani::any() };
    let r = ed.preferred_resolution();
    let hx = ed.data[0x36 + 2] as u32 | ((ed.data[0x36 + 4] as u32 & 0xf0) << 4);
    let vx = ed.data[0x36 + 5] as u32 | ((ed.data[0x36 + 7] as u32 & 0xf0) << 4);
    if ed.size >= 128 && hx != 0 && vx != 0 {
        assert!(r == Ok((hx, vx)), "C20: preferred resolution must be the active pixels of the first detailed timing descriptor");
    } else {
        assert!(r == Err(Error::IoError), "C20: a blob without a base block or with a zero-sized first descriptor has no preferred resolution");
    }
    kani::cover!(r == Ok((1920, 1080)));
    kani::cover!(ed.size == 127);
}

// (Edid::standard_timings was tried: sorting the Vec of symbolic (h, v) pairs did not finish in 40 minutes; see DESIGN.md)

// ---- the real new(): handshake, DMA failure, teardown ----------------------------------------------------------------
// @harness props=C08,C09 tier=quick timeout=2400
#[kani::proof]
#[kani::unwind(50)]
fn c08_gpu_new() {
    lg_init_concrete();
    let offered: u64 = kani::any();
    kani::assume(offered & (1 << 28) == 0);
    let t = mt::<GpuDev>(DeviceType::GPU, offered);
    let k: usize = kani::any();
    kani::assume(k <= 5);
    unsafe { DMA_FAIL_AT = k; DMA_RING_ALLOCS = 4; }
    match VirtIOGpu::<THal<N>, MT<GpuDev>>::new(t) {
        Err(e) => {
            assert!(k >= 1 && k <= 4, "C09: construction failed although no allocation failed");
            check_failed_new(e);
        }
        Ok(gpu) => {
            assert!(k == 0 || k == 5, "C09: construction succeeded although an allocation failed");
            let w = check_handshake(offered, SUPPORTED_FEATURES.bits(), 2);
            assert!(gpu.has_edid == (w & 2 != 0), "C08: EDID support must follow the negotiated feature");
            assert!(q_flags(&gpu.control_queue) == (false, w & (1 << 29) != 0, w & (1 << 33) != 0) && gpu.access_platform == (w & (1 << 33) != 0), "C08: queue mechanisms must follow the negotiated features");
            drop(gpu);
            check_teardown(2, 4);
        }
    }
    kani::cover!(k == 3);
    kani::cover!(k == 0 && offered & 2 != 0);
}

// reduced: display info only
// (not registered: CBMC aborts with std::bad_alloc at the 22 GB cap after ~400 s)
#[cfg(any())]
fn c20_gpu_resolution() {
    let mut gpu = mk();
    unsafe { DISP = kani::any(); RESP_T[0] = kani::any(); }
    let r = gpu.resolution();
    unsafe {
        assert!(CMD_N == 1 && CMD_T[0] == 0x100 && CMD_HDR_CLEAN, "C20: GET_DISPLAY_INFO command");
        if RESP_T[0] == 0 || RESP_T[0] == 0x1101 {
            assert!(r == Ok((DISP[2], DISP[3])), "C20: resolution must be what the device reported");
        } else {
            assert!(r == Err(Error::IoError), "C20: a response that is not the expected success type must be reported as an error");
        }
    }
    core::mem::forget(gpu);
    kani::cover!(r.is_ok());
    kani::cover!(r.is_err());
}

// reduced: first framebuffer set-up only
// (not registered: CBMC aborts with std::bad_alloc at the 22 GB cap after ~400 s)
#[cfg(any())]
fn c20_gpu_change_resolution() {
    let mut gpu = mk();
    let (w, h): (u32, u32) = (kani::any(), kani::any());
    kani::assume(w >= 1 && w <= 32 && h >= 1 && h <= 32);
    let fb_len = gpu.change_resolution(w, h).map(|b| b.len());
    unsafe {
        assert!(fb_len.is_ok(), "C20: change_resolution with a device that never errs");
        assert!(CMD_N == 3 && CMD_T[0] == 0x101 && CMD_T[1] == 0x106 && CMD_T[2] == 0x103, "C20: a new framebuffer is set up as create resource, attach backing, set scanout - in that order");
        assert!(CMD_A[0][0] == 0xbabe && CMD_A[0][1] == 1 && CMD_A[0][2] == w && CMD_A[0][3] == h, "C20: RESOURCE_CREATE_2D fields (resource id, format B8G8R8A8, width, height)");
        let addr = (CMD_A[1][2] as u64) | ((CMD_A[1][3] as u64) << 32);
        assert!(CMD_A[1][0] == 0xbabe && CMD_A[1][1] == 1 && CMD_A[1][4] == w * h * 4 && addr == DMA[4].paddr, "C20: RESOURCE_ATTACH_BACKING fields (resource id, one entry, address and length of the framebuffer memory)");
        assert!(CMD_A[2][2] == w && CMD_A[2][3] == h && CMD_A[2][4] == 0 && CMD_A[2][5] == 0xbabe, "C20: SET_SCANOUT fields (rect, scanout id, resource id)");
        assert!(DMA[4].live, "C20: framebuffer memory must stay allocated while attached");
    }
    core::mem::forget(gpu);
    kani::cover!(w == 32 && h == 32);
    kani::cover!(w == 3 && h == 5);
}

// ---- second attempt at the GPU command sequences: a hand-rolled two-descriptor device (no generic chain walk) -------
static mut G2_N: usize = 0;
static mut G2_T: [u32; 8] = [0; 8];
static mut G2_A: [[u32; 7]; 8] = [[0; 7]; 8];
static mut G2_RESP: [u32; 8] = [0; 8];
static mut G2_DISP: [u32; 2] = [0; 2];
struct GpuDev2;
impl DevModel for GpuDev2 {
    fn on_notify(q: u16) {
        if q == QUEUE_CURSOR {
            unsafe {
                if let Some(head) = dev_take::<N>(1) {
                    let m = &*(QS[1].d2d as *const D2DMem<N>);
                    let d0 = dv(&m.desc[(head as usize) % N]);
                    assert!(d0.flags == 0 && d0.len == 4096, "C20: a cursor command is one readable request");
                    let e0 = lg_find_live(d0.addr);
                    assert!(e0.is_some(), "C04: device was given an address that is not a live share");
                    let p0 = LGP[e0.unwrap()];
                    CUR_T = (p0 as *const u32).read_unaligned();
                    let mut w = 0;
                    while w < 8 {
                        CUR_A[w] = (p0.add(24 + 4 * w) as *const u32).read_unaligned();
                        w += 1;
                    }
                    CUR_N += 1;
                    dev_complete::<N>(1, head, 0);
                }
            }
            return;
        }
        unsafe {
            if let Some(head) = dev_take::<N>(0) {
                let m = &*(QS[0].d2d as *const D2DMem<N>);
                let d0 = dv(&m.desc[(head as usize) % N]);
                let d1 = dv(&m.desc[(d0.next as usize) % N]);
                assert!(d0.flags == 1 && d1.flags == 2 && d0.len == 4096 && d1.len == 4096, "C20: a control command is one readable request and one writable response");
                let e0 = lg_find_live(d0.addr);
                let e1 = lg_find_live(d1.addr);
                assert!(e0.is_some() && e1.is_some(), "C04: device was given an address that is not a live share");
                let (p0, p1) = (LGP[e0.unwrap()], LGP[e1.unwrap()]);
                let i = G2_N;
                assert!(i < 8, "C20: more commands than the operation allows");
                G2_T[i] = (p0 as *const u32).read_unaligned();
                let mut w = 0;
                while w < 7 {
                    G2_A[i][w] = (p0.add(24 + 4 * w) as *const u32).read_unaligned();
                    w += 1;
                }
                let ok = match G2_T[i] { 0x100 => 0x1101, 0x10a => 0x1104, _ => 0x1100 };
                (p1 as *mut u32).write_unaligned(if G2_RESP[i] == 0 { ok } else { G2_RESP[i] });
                if G2_T[i] == 0x100 {
                    (p1.add(24 + 8) as *mut u32).write_unaligned(G2_DISP[0]);
                    (p1.add(24 + 12) as *mut u32).write_unaligned(G2_DISP[1]);
                }
                if G2_T[i] == 0x10a {
                    (p1.add(24) as *mut u32).write_unaligned(EDID_SIZE);
                    *p1.add(32 + EDID_K) = EDID_BYTE;
                }
                if G2_T[i] == 0x106 {
                    // attach backing: the memory must be live DMA memory covering the advertised length
                    let addr = (G2_A[i][2] as u64) | ((G2_A[i][3] as u64) << 32);
                    let di = dma_index(addr);
                    assert!(di.is_some() && DMA[di.unwrap()].live, "C20: backing address is not live DMA memory");
                    assert!(G2_A[i][4] as usize <= DMA[di.unwrap()].pages * 4096, "C20: backing memory does not cover the advertised length");
                    DMA_PROTECTED[0] = addr;
                }
                if G2_T[i] == 0x107 || G2_T[i] == 0x102 { DMA_PROTECTED[0] = 0; }
                G2_N += 1;
                dev_complete::<N>(0, head, 4096);
            }
        }
    }
}
fn mk2() -> VirtIOGpu<THal<N>, MT<GpuDev2>> {
    lg_init_concrete();
    let mut t = mt::<GpuDev2>(DeviceType::GPU, 0);
    unsafe { DRIVER_OK_SEEN = true; DMA_RING_ALLOCS = 4; }
    let control_queue = VirtQueue::new(&mut t, QUEUE_TRANSMIT, false, false, false).unwrap();
    let cursor_queue = VirtQueue::new(&mut t, QUEUE_CURSOR, false, false, false).unwrap();
    VirtIOGpu {
        transport: t, rect: None, frame_buffer_dma: None, cursor_buffer_dma: None, control_queue, cursor_queue,
        queue_buf_send: FromZeros::new_box_zeroed_with_elems(PAGE_SIZE).unwrap(),
        queue_buf_recv: FromZeros::new_box_zeroed_with_elems(PAGE_SIZE).unwrap(),
        has_edid: false, access_platform: false,
    }
}

// (not registered: passes alone in ~5 min but is at the edge of the memory cap when run next to other harnesses)
#[cfg(any())]
fn c20_gpu2_resolution() {
    let mut gpu = mk2();
    unsafe { G2_DISP = kani::any(); G2_RESP[0] = kani::any(); }
    let r = gpu.resolution();
    unsafe {
        assert!(G2_N == 1 && G2_T[0] == 0x100, "C20: GET_DISPLAY_INFO command");
        if G2_RESP[0] == 0 || G2_RESP[0] == 0x1101 {
            assert!(r == Ok((G2_DISP[0], G2_DISP[1])), "C20: resolution must be what the device reported");
        } else {
            assert!(r == Err(Error::IoError), "C20: a response that is not the expected success type must be reported as an error");
        }
    }
    core::mem::forget(gpu);
    kani::cover!(r.is_ok());
    kani::cover!(r.is_err());
}

// first framebuffer set-up, then flush
// (not registered: more than one 4096-byte command round trip exhausts memory - bad_alloc after ~6 min)
#[cfg(any())]
fn c20_gpu2_change_resolution_flush() {
    let mut gpu = mk2();
    let (w, h): (u32, u32) = (kani::any(), kani::any());
    kani::assume(w >= 1 && w <= 32 && h >= 1 && h <= 32);
    let fb_len = gpu.change_resolution(w, h).map(|b| b.len());
    unsafe {
        assert!(fb_len.is_ok(), "C20: change_resolution with a device that never errs");
        assert!(G2_N == 3 && G2_T[0] == 0x101 && G2_T[1] == 0x106 && G2_T[2] == 0x103, "C20: a new framebuffer is set up as create resource, attach backing, set scanout - in that order");
        assert!(G2_A[0][0] == 0xbabe && G2_A[0][1] == 1 && G2_A[0][2] == w && G2_A[0][3] == h, "C20: RESOURCE_CREATE_2D fields (resource id, format B8G8R8A8, width, height)");
        let addr = (G2_A[1][2] as u64) | ((G2_A[1][3] as u64) << 32);
        assert!(G2_A[1][0] == 0xbabe && G2_A[1][1] == 1 && G2_A[1][4] == w * h * 4 && addr == DMA[4].paddr, "C20: RESOURCE_ATTACH_BACKING fields (resource id, one entry, address and length of the framebuffer memory)");
        assert!(G2_A[2][0] == 0 && G2_A[2][1] == 0 && G2_A[2][2] == w && G2_A[2][3] == h && G2_A[2][4] == 0 && G2_A[2][5] == 0xbabe, "C20: SET_SCANOUT fields (rect, scanout id, resource id)");
        assert!(fb_len.unwrap() >= (w * h * 4) as usize && DMA[4].live, "C20: framebuffer memory must cover the resolution and stay allocated while attached");
        G2_N = 0;
    }
    let r = gpu.flush();
    unsafe {
        assert!(r.is_ok() && G2_N == 2 && G2_T[0] == 0x105 && G2_T[1] == 0x104, "C20: flush is transfer-to-host then resource-flush");
        assert!(G2_A[0][2] == w && G2_A[0][3] == h && G2_A[0][4] == 0 && G2_A[0][5] == 0 && G2_A[0][6] == 0xbabe, "C20: TRANSFER_TO_HOST_2D fields (rect, offset 0, resource id)");
        assert!(G2_A[1][2] == w && G2_A[1][3] == h && G2_A[1][4] == 0xbabe, "C20: RESOURCE_FLUSH fields (rect, resource id)");
    }
    core::mem::forget(gpu);
    kani::cover!(w == 32 && h == 32);
    kani::cover!(w == 3 && h == 5);
}

// a second resolution change tears the old framebuffer down first and only then releases its memory
// (not registered: more than one 4096-byte command round trip exhausts memory - bad_alloc after ~6 min)
#[cfg(any())]
fn c20_gpu2_second_change_resolution() {
    let mut gpu = mk2();
    let _ = gpu.change_resolution(4, 4).map(|b| b.len());
    unsafe { G2_N = 0; }
    let (w2, h2): (u32, u32) = (kani::any(), kani::any());
    kani::assume(w2 >= 1 && w2 <= 32 && h2 >= 1 && h2 <= 32);
    let r2 = gpu.change_resolution(w2, h2).map(|b| b.len());
    unsafe {
        assert!(r2.is_ok() && G2_N == 6, "C20: second change_resolution");
        assert!(G2_T[0] == 0x103 && G2_A[0][5] == 0 && G2_T[1] == 0x107 && G2_A[1][0] == 0xbabe && G2_T[2] == 0x102 && G2_A[2][0] == 0xbabe, "C20: tear-down is disable scanout, detach backing, unref - before anything is released");
        assert!(G2_T[3] == 0x101 && G2_T[4] == 0x106 && G2_T[5] == 0x103, "C20: then create, attach, set scanout again");
        assert!(!DMA[4].live && DMA[4].deallocs == 1 && DMA[5].live, "C20: the old framebuffer memory is released exactly once, the new one stays");
        assert!(G2_A[4][4] == w2 * h2 * 4, "C20: new backing length");
    }
    core::mem::forget(gpu);
    kani::cover!(w2 == 1 && h2 == 1);
    kani::cover!(w2 == 32);
}

// every helper reports any response other than the expected success type; EDID gating; cursor move
// (not registered: more than one 4096-byte command round trip exhausts memory - bad_alloc after ~6 min)
#[cfg(any())]
fn c20_gpu2_errors_edid_cursor() { gpu2_single(9) }

fn gpu2_single(opfix: u8) {
    let mut gpu = mk2();
    gpu.has_edid = kani::any();
    let rt: u32 = kani::any();
    unsafe {
        G2_RESP[0] = rt;
        EDID_SIZE = kani::any();
        EDID_K = match kani::any::<u8>() % 3 { 0 => 0, 1 => 0x38, _ => 1023 };
        EDID_BYTE = kani::any();
    }
    let op: u8 = if opfix < 4 { opfix } else { kani::any() };
    kani::assume(op < 4);
    if op == 2 || op == 1 { kani::assume(rt != 0 && rt != 0x1100); } // single-command variants: the first command fails
    match op {
        0 => {
            let sc: u32 = kani::any();
            let e = gpu.get_edid(sc);
            unsafe {
                if !gpu.has_edid {
                    assert!(G2_N == 0 && matches!(e, Err(Error::Unsupported)), "C08: EDID must not be requested unless the feature was negotiated");
                } else if rt == 0 || rt == 0x1104 {
                    assert!(G2_N == 1 && G2_T[0] == 0x10a && G2_A[0][0] == sc, "C20: GET_EDID command (scanout id)");
                    let ed = e.unwrap();
                    assert!(ed.size == EDID_SIZE && ed.data[EDID_K] == EDID_BYTE, "C20: EDID blob must be what the device reported");
                } else {
                    assert!(matches!(e, Err(Error::IoError)), "C20: a response that is not the expected success type must be reported as an error");
                }
            }
        }
        1 => {
            gpu.rect = Some(Rect { x: 0, y: 0, width: 1, height: 1 });
            let r = gpu.flush();
            assert!(r.is_ok() == (rt == 0 || rt == 0x1100), "C20: a response that is not the expected success type must be reported as an error");
            if r.is_err() { assert!(unsafe { G2_N } == 1, "C20: the operation must stop at the first failed command"); }
        }
        2 => {
            let (cw, ch): (u32, u32) = (kani::any(), kani::any());
            kani::assume(cw >= 1 && cw <= 32 && ch >= 1 && ch <= 32);
            let r = gpu.change_resolution(cw, ch).map(|b| b.len());
            unsafe {
                assert!(G2_T[0] == 0x101 && G2_A[0][0] == 0xbabe && G2_A[0][1] == 1 && G2_A[0][2] == cw && G2_A[0][3] == ch, "C20: a framebuffer set-up starts with RESOURCE_CREATE_2D (resource id, format B8G8R8A8, width, height)");
            }
            assert!(r.is_ok() == (rt == 0 || rt == 0x1100), "C20: a response that is not the expected success type must be reported as an error");
            if r.is_err() { assert!(unsafe { G2_N } == 1 && dma_live_count() == 4, "C20: the operation must stop at the first failed command without keeping memory"); }
        }
        _ => {
            let (x, y): (u32, u32) = (kani::any(), kani::any());
            let m = gpu.move_cursor(x, y);
            unsafe {
                assert!(m.is_ok() && CUR_N == 1 && CUR_T == 0x301 && CUR_A[0] == 0 && CUR_A[1] == x && CUR_A[2] == y && CUR_A[4] == 0xdade, "C20: MOVE_CURSOR fields (scanout, x, y, resource id)");
            }
        }
    }
    let had_edid = gpu.has_edid;
    core::mem::forget(gpu);
    kani::cover!(rt == 0x1200 || op == 3);
    kani::cover!(op != 0 || (rt == 0 && had_edid));
}

// (not registered: passes alone in ~5 min but is at the edge of the memory cap when run next to other harnesses)
#[cfg(any())]
fn c20_gpu2_get_edid() { gpu2_single(0) }

// (not registered: passes alone in ~5 min but is at the edge of the memory cap when run next to other harnesses)
#[cfg(any())]
fn c20_gpu2_create_fails() { gpu2_single(2) }

// (not registered: passes alone in ~5 min but is at the edge of the memory cap when run next to other harnesses)
#[cfg(any())]
fn c20_gpu2_move_cursor() { gpu2_single(3) }

// (not registered)
#[cfg(any())]
fn c20_gpu2_flush_fails() { gpu2_single(1) }
