// @mount src/transport/mod.rs
//
// MMIO access trace: every volatile access safe-mmio performs is redirected (kani::stub of
// <safe_mmio::backend::volatile::Ops as MmioOps>::{read,write}_{u8,u16,u32,u64}) to these functions,
// which log (offset, width, direction, value) relative to the harness-owned register block and serve
// reads from a register-level device model.  Shared by the MMIO (C10, C13) and PCI (C11, C12, C13) harnesses.
#![allow(unused, unsafe_op_in_unsafe_fn, clippy::all, static_mut_refs)]

pub const MAXTR: usize = 24;
/// Register block + configuration space the transport is pointed at (u32 words).
pub const BLOCK_WORDS: usize = 96; // 0x000..0x180
#[repr(C, align(16))]
pub struct AlignedBlock(pub [u32; BLOCK_WORDS]);
pub static mut BLOCK: AlignedBlock = AlignedBlock([0; BLOCK_WORDS]);
pub static mut TR_N: usize = 0;
pub static mut TR_OFF: [usize; MAXTR] = [0; MAXTR];
pub static mut TR_W: [bool; MAXTR] = [false; MAXTR];
pub static mut TR_WIDTH: [u8; MAXTR] = [0; MAXTR];
pub static mut TR_VAL: [u64; MAXTR] = [0; MAXTR];
/// Device side: value served for reads of word i (the harness makes these symbolic as needed).
pub static mut DEV: [u32; BLOCK_WORDS] = [0; BLOCK_WORDS];
/// "read until it reads back 0" loops: a read of POLL_OFF returns POLL_BUSY_VAL while POLL_LEFT > 0.
pub static mut POLL_OFF: usize = usize::MAX;
pub static mut POLL_LEFT: u32 = 0;
pub static mut POLL_BUSY_VAL: u32 = 1;
/// the device bumps its config generation (word at GEN_OFF) after GEN_BUMP_AT further config reads
pub static mut RD_HOOK: u8 = 0;
/// selector-dependent register: a 32-bit read of SEL_OFF returns SEL_VAL[last value written to SEL_SRC_OFF & 1]
pub static mut SEL_OFF: usize = usize::MAX;
pub static mut SEL_SRC_OFF: usize = 0;
pub static mut SEL_VAL: [u32; 2] = [0; 2];

pub fn block_ptr() -> *mut u8 {
    unsafe { BLOCK.0.as_mut_ptr() as *mut u8 }
}
pub fn tr_reset() {
    unsafe { TR_N = 0; }
}
fn off_of(p: *const u8) -> usize {
    // same-object pointer difference; a pointer outside the block is caught by Kani's offset_from check
    let d = unsafe { p.offset_from(block_ptr() as *const u8) };
    assert!(d >= 0 && (d as usize) < BLOCK_WORDS * 4, "C10: MMIO access outside the device's register block / window");
    d as usize
}
fn log(off: usize, w: bool, width: u8, v: u64) {
    unsafe {
        assert!(TR_N < MAXTR, "harness: MMIO trace full");
        TR_OFF[TR_N] = off;
        TR_W[TR_N] = w;
        TR_WIDTH[TR_N] = width;
        TR_VAL[TR_N] = v;
        TR_N += 1;
    }
}
fn dev_read(off: usize, width: u8) -> u64 {
    unsafe {
        if off == POLL_OFF {
            if POLL_LEFT > 0 {
                POLL_LEFT -= 1;
                return POLL_BUSY_VAL as u64;
            }
            return 0;
        }
        if off == SEL_OFF && width == 4 {
            return SEL_VAL[(DEV_W[SEL_SRC_OFF / 4] & 1) as usize] as u64;
        }
        let w = DEV[off / 4] as u64;
        match width {
            1 => (w >> (8 * (off % 4))) & 0xff,
            2 => (w >> (8 * (off % 4))) & 0xffff,
            4 => w,
            _ => w | ((DEV[(off / 4 + 1) % BLOCK_WORDS] as u64) << 32),
        }
    }
}
fn dev_write(off: usize, width: u8, v: u64) {
    unsafe {
        let i = off / 4;
        match width {
            4 => DEV_W[i] = v as u32,
            _ => {}
        }
    }
}
/// last value written per word (device side view of driver writes)
pub static mut DEV_W: [u32; BLOCK_WORDS] = [0; BLOCK_WORDS];

pub struct KOps;
impl KOps {
    pub unsafe fn read_u8(s: *const u8) -> u8 {
        let o = off_of(s);
        let v = dev_read(o, 1);
        log(o, false, 1, v);
        v as u8
    }
    pub unsafe fn read_u16(s: *const u16) -> u16 {
        let o = off_of(s as *const u8);
        let v = dev_read(o, 2);
        log(o, false, 2, v);
        v as u16
    }
    pub unsafe fn read_u32(s: *const u32) -> u32 {
        let o = off_of(s as *const u8);
        let v = dev_read(o, 4);
        log(o, false, 4, v);
        v as u32
    }
    pub unsafe fn read_u64(s: *const u64) -> u64 {
        let o = off_of(s as *const u8);
        let v = dev_read(o, 8);
        log(o, false, 8, v);
        v
    }
    pub unsafe fn write_u8(d: *mut u8, v: u8) {
        let o = off_of(d as *const u8);
        log(o, true, 1, v as u64);
        dev_write(o, 1, v as u64);
    }
    pub unsafe fn write_u16(d: *mut u16, v: u16) {
        let o = off_of(d as *const u8);
        log(o, true, 2, v as u64);
        dev_write(o, 2, v as u64);
    }
    pub unsafe fn write_u32(d: *mut u32, v: u32) {
        let o = off_of(d as *const u8);
        log(o, true, 4, v as u64);
        dev_write(o, 4, v as u64);
    }
    pub unsafe fn write_u64(d: *mut u64, v: u64) {
        let o = off_of(d as *const u8);
        log(o, true, 8, v);
        dev_write(o, 8, v);
    }
}

/// trace entry i equals (offset, is-write, 32-bit, value)
pub fn tr_is(i: usize, off: usize, w: bool, v: u32) -> bool {
    unsafe { i < TR_N && TR_OFF[i] == off && TR_W[i] == w && TR_WIDTH[i] == 4 && TR_VAL[i] == v as u64 }
}
pub fn tr_len() -> usize {
    unsafe { TR_N }
}
