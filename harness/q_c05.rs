// @mount src/queue.rs
// @needs q_env
//
// C05 - no lost wake-ups.  Functions encoded: VirtQueue::{should_notify, set_dev_notify, add, pop_used,
// add_notify_wait_pop, can_pop}.
#![allow(unused, unsafe_op_in_unsafe_fn, clippy::all, static_mut_refs)]
use super::__verif_q_env::*;

// ---- should_notify vs the specification's predicate ------------------------------------------------

// k real submissions between two checks, N = 4; all 2^16 old indices x 2^16 event indices x k in 1..=4
// @harness props=C05 tier=quick timeout=600
#[kani::proof]
#[kani::unwind(6)]
fn c05_need_event_adds_4() {
    const N: usize = 4;
    lg_init();
    let mut b = any_backing::<N>();
    let mut q = mk_queue::<LHal, N>(&mut b, 0, false, true, kani::any());
    let old: u16 = kani::any();
    q.avail_idx = old;
    q.last_used_idx = kani::any();
    let a = [1u8];
    let k: u16 = kani::any();
    kani::assume(k >= 1 && k <= N as u16);
    let mut i = 0;
    while i < N as u16 {
        if i < k {
            unsafe { q.add(&[&a], &mut []) }.unwrap();
        }
        i += 1;
    }
    let ev: u16 = kani::any();
    b.used.avail_event.store(ev, Ordering::Relaxed);
    b.used.flags.store(kani::any(), Ordering::Relaxed);
    let new = old.wrapping_add(k);
    assert!(q.avail_idx == new, "C05: available index advanced by the batch size");
    if need_event(ev, new, old) {
        assert!(q.should_notify(), "C05: event index lies among the entries made available since the last check but should_notify() is false");
    }
    kani::cover!(k == 1 && need_event(ev, new, old));
    kani::cover!(k >= 2 && new < old && need_event(ev, new, old)); // batch crosses the 16-bit wrap
    kani::cover!(k == 4 && ev == old.wrapping_add(1) && old == 0x7fff);
    core::mem::forget(q);
}

// The predicate does not depend on SIZE except through the batch bound; every batch size up to 32768
// is covered by havocking avail_idx directly (should_notify reads only avail_idx and the used ring).
// @harness props=C05 tier=quick timeout=600
#[kani::proof]
#[kani::unwind(6)]
fn c05_need_event_havoc_32768() {
    const N: usize = 4;
    lg_init();
    let mut b = any_backing::<N>();
    let mut q = mk_queue::<LHal, N>(&mut b, 0, kani::any(), true, kani::any());
    let old: u16 = kani::any();
    let k: u16 = kani::any();
    kani::assume(k >= 1 && k <= 32768);
    let new = old.wrapping_add(k);
    q.avail_idx = new;
    q.last_used_idx = kani::any();
    q.num_used = kani::any();
    q.free_head = kani::any();
    let ev = b.used.avail_event.load(Ordering::Relaxed);
    if need_event(ev, new, old) {
        assert!(q.should_notify(), "C05: event index lies among the entries made available since the last check but should_notify() is false");
    }
    kani::cover!(k == 32768 && need_event(ev, new, old));
    kani::cover!(new < old && need_event(ev, new, old));
    kani::cover!(q.should_notify() && !need_event(ev, new, old)); // over-notification is allowed
    core::mem::forget(q);
}

// Without event-idx: exactly the device's suppression flag.
// @harness props=C05 tier=quick timeout=300
#[kani::proof]
#[kani::unwind(6)]
fn c05_flag_mode() {
    const N: usize = 4;
    lg_init();
    let mut b = any_backing::<N>();
    let mut q = mk_queue::<LHal, N>(&mut b, 0, kani::any(), false, kani::any());
    q.avail_idx = kani::any();
    q.last_used_idx = kani::any();
    let fl = b.used.flags.load(Ordering::Relaxed);
    let r = q.should_notify();
    assert!(r == ((fl & 1) == 0), "C05: without event-idx should_notify() must be exactly 'device flag NO_NOTIFY clear'");
    kani::cover!(r && fl != 0);
    kani::cover!(!r);
    core::mem::forget(q);
}

// set_dev_notify: without event-idx the device reads exactly the driver's setting; with it nothing changes.
// @harness props=C05 tier=quick timeout=300
#[kani::proof]
#[kani::unwind(6)]
fn c05_set_dev_notify() {
    const N: usize = 4;
    lg_init();
    let mut b = any_backing::<N>();
    let ev: bool = kani::any();
    let mut q = mk_queue::<LHal, N>(&mut b, 0, kani::any(), ev, kani::any());
    havoc_private(&mut q);
    let before = dev_snap(&b);
    let p0 = priv_snap(&q);
    let enable: bool = kani::any();
    q.set_dev_notify(enable);
    let after = dev_snap(&b);
    assert!(priv_same(&q, &p0), "C05: set_dev_notify changed driver-private state");
    if ev {
        assert!(dev_same(&b, &before), "C05: with event-idx set_dev_notify must not touch device-visible memory");
    } else {
        assert!(after.avail_flags == if enable { 0 } else { 1 }, "C05: avail.flags must be NO_INTERRUPT exactly when notifications are disabled");
        assert!(after.avail_idx == before.avail_idx && after.used_event == before.used_event, "C05: set_dev_notify changed something other than avail.flags");
        let mut i = 0;
        while i < N {
            assert!(after.ring[i] == before.ring[i] && dv_eq(&after.desc[i], &before.desc[i]), "C05: set_dev_notify changed ring/descriptors");
            i += 1;
        }
    }
    kani::cover!(ev && enable);
    kani::cover!(!ev && !enable && before.avail_flags == 0);
    core::mem::forget(q);
}

// Re-arm: with event-idx every consumed completion publishes used_event = new last_used_idx, so a
// specification-following device interrupts for the next one; without it used_event is untouched.
// @harness props=C05 tier=quick timeout=600
#[kani::proof]
#[kani::unwind(6)]
fn c05_rearm_after_pop() {
    const N: usize = 4;
    lg_init();
    let mut b = any_backing::<N>();
    let ev: bool = kani::any();
    let mut q = mk_queue::<LHal, N>(&mut b, 0, false, ev, kani::any());
    q.avail_idx = kani::any();
    let lu: u16 = kani::any();
    q.last_used_idx = lu;
    let x = [7u8; 2];
    let mut y = [0u8; 3];
    let tok = unsafe { q.add(&[&x], &mut [&mut y]) }.unwrap();
    let ue0 = b.avail.used_event.load(Ordering::Relaxed);
    // device completes it
    b.used.ring[(lu as usize) & (N - 1)] = UsedElem { id: tok as u32, len: kani::any() };
    b.used.idx.store(lu.wrapping_add(1), Ordering::Relaxed);
    let r = unsafe { q.pop_used(tok, &[&x], &mut [&mut y]) };
    assert!(r.is_ok(), "C05: completion of the only outstanding chain must be consumable");
    let ue1 = b.avail.used_event.load(Ordering::Relaxed);
    if ev {
        assert!(ue1 == lu.wrapping_add(1), "C05: used_event not re-armed to the new last_used_idx after a consumed completion");
    } else {
        assert!(ue1 == ue0, "C05: used_event written although event-idx was not negotiated");
    }
    kani::cover!(ev && lu == 0xffff);
    kani::cover!(!ev);
    core::mem::forget(q);
}

// ---- blocking helper against three device servicing policies -----------------------------------------
const POL_NOTIFY: u8 = 0; // works only inside notify()
const POL_POLL: u8 = 1; // suppressed notifications, works while the driver spins
const POL_LATE: u8 = 2; // needs the notification, then serves on the j-th spin

static mut DEV_B: *mut Backing<4> = core::ptr::null_mut();
static mut DEV_POLICY: u8 = 0;
static mut DEV_KICKED: bool = false;
static mut DEV_LAST: u16 = 0;
static mut DEV_LEN: u32 = 0;
static mut DEV_J: u32 = 0;
static mut SPINS: u32 = 0;
static mut SERVED: u32 = 0;
static mut SERVED_HEAD: u16 = 0xffff;

unsafe fn dev_serve() {
    let b = &mut *DEV_B;
    let aidx = b.avail.idx.load(Ordering::Acquire);
    if aidx == DEV_LAST {
        return;
    }
    let head = b.avail.ring[(DEV_LAST as usize) & 3];
    b.used.ring[(DEV_LAST as usize) & 3] = UsedElem { id: head as u32, len: DEV_LEN };
    DEV_LAST = DEV_LAST.wrapping_add(1);
    b.used.idx.store(DEV_LAST, Ordering::Release);
    SERVED += 1;
    SERVED_HEAD = head;
}

fn spin_dev() {
    unsafe {
        SPINS += 1;
        match DEV_POLICY {
            POL_POLL => dev_serve(),
            POL_LATE => {
                if DEV_KICKED && SPINS >= DEV_J {
                    dev_serve()
                }
            }
            _ => {}
        }
    }
}

struct DT {
    notified: u32,
}
impl Transport for DT {
    fn device_type(&self) -> DeviceType { DeviceType::Block }
    fn read_device_features(&mut self) -> u64 { 0 }
    fn write_driver_features(&mut self, _f: u64) {}
    fn max_queue_size(&mut self, _q: u16) -> u32 { 4 }
    fn notify(&mut self, q: u16) {
        assert!(q == 5, "C05: notification sent for the wrong queue index");
        self.notified += 1;
        unsafe {
            DEV_KICKED = true;
            if DEV_POLICY == POL_NOTIFY {
                dev_serve();
            }
        }
    }
    fn get_status(&self) -> DeviceStatus { DeviceStatus::empty() }
    fn set_status(&mut self, _s: DeviceStatus) {}
    fn set_guest_page_size(&mut self, _g: u32) {}
    fn requires_legacy_layout(&self) -> bool { false }
    fn queue_set(&mut self, _q: u16, _s: u32, _d: PhysAddr, _a: PhysAddr, _u: PhysAddr) {}
    fn queue_unset(&mut self, _q: u16) {}
    fn queue_used(&mut self, _q: u16) -> bool { false }
    fn ack_interrupt(&mut self) -> InterruptStatus { InterruptStatus::empty() }
    fn read_config_generation(&self) -> u32 { 0 }
    fn read_config_space<T: FromBytes + IntoBytes>(&self, _o: usize) -> crate::Result<T> { Err(Error::ConfigSpaceMissing) }
    fn write_config_space<T: IntoBytes + Immutable>(&mut self, _o: usize, _v: T) -> crate::Result<()> { Err(Error::ConfigSpaceMissing) }
}

fn blocking_body(policy: u8, ev: bool) {
    const N: usize = 4;
    lg_init();
    let mut b = zero_backing::<N>();
    let base: u16 = kani::any();
    let mut q = mk_queue::<LHal, N>(&mut b, 5, false, ev, kani::any());
    q.avail_idx = base;
    q.last_used_idx = base;
    b.avail.idx.store(base, Ordering::Relaxed);
    b.used.idx.store(base, Ordering::Relaxed);
    unsafe {
        DEV_B = &mut b;
        DEV_POLICY = policy;
        DEV_LAST = base;
        DEV_LEN = kani::any();
        DEV_J = kani::any();
        kani::assume(DEV_J >= 1 && DEV_J <= 2);
    }
    // what the device told the driver about notifications
    if policy == POL_POLL {
        if ev {
            // the device wants no notification soon: event index far ahead of anything submitted now
            let far: u16 = kani::any();
            kani::assume(far >= 8 && far < 0x7000);
            b.used.avail_event.store(base.wrapping_add(far), Ordering::Relaxed);
        } else {
            b.used.flags.store(1, Ordering::Relaxed);
        }
    } else {
        // a device that has processed everything up to `base` and wants to hear about the next entry
        b.used.avail_event.store(base, Ordering::Relaxed);
        b.used.flags.store(0, Ordering::Relaxed);
    }
    let mut t = DT { notified: 0 };
    let x = [3u8; 2];
    let mut y = [0u8; 2];
    let r = q.add_notify_wait_pop(&[&x], &mut [&mut y], &mut t);
    unsafe {
        assert!(r == Ok(DEV_LEN), "C05: blocking helper must return the length the device recorded");
        assert!(SERVED == 1, "C05: exactly one request served");
        match policy {
            POL_NOTIFY => {
                assert!(t.notified >= 1, "C05: device that serves only on notification was never notified");
                assert!(SPINS == 0, "C05: helper kept waiting although the device had already served the request");
            }
            POL_POLL => {
                if !ev {
                    assert!(t.notified == 0, "C05: notification sent although the device set its suppression flag");
                }
                assert!(SPINS == 1, "C05: helper must return as soon as the polling device served the request");
            }
            _ => {
                assert!(t.notified >= 1, "C05: late-serving device was never notified");
                assert!(SPINS == DEV_J, "C05: helper must return as soon as the device served the request");
            }
        }
    }
    assert!(q.num_used == 0 && q.last_used_idx == base.wrapping_add(1), "C05: request fully consumed");
    kani::cover!(base == 0xffff);
    kani::cover!(unsafe { DEV_J } == 2);
    core::mem::forget(q);
}

// @harness props=C05 tier=quick timeout=600 waitloop=add_notify_wait_pop
#[kani::proof]
#[kani::stub(core::hint::spin_loop, spin_dev)]
#[kani::unwind(6)]
fn c05_blocking_notify_flag() { blocking_body(POL_NOTIFY, false) }

// @harness props=C05 tier=quick timeout=600 waitloop=add_notify_wait_pop
#[kani::proof]
#[kani::stub(core::hint::spin_loop, spin_dev)]
#[kani::unwind(6)]
fn c05_blocking_notify_event() { blocking_body(POL_NOTIFY, true) }

// @harness props=C05 tier=quick timeout=600 waitloop=add_notify_wait_pop
#[kani::proof]
#[kani::stub(core::hint::spin_loop, spin_dev)]
#[kani::unwind(6)]
fn c05_blocking_poll_flag() { blocking_body(POL_POLL, false) }

// @harness props=C05 tier=quick timeout=600 waitloop=add_notify_wait_pop
#[kani::proof]
#[kani::stub(core::hint::spin_loop, spin_dev)]
#[kani::unwind(6)]
fn c05_blocking_poll_event() { blocking_body(POL_POLL, true) }

// @harness props=C05 tier=quick timeout=600 waitloop=add_notify_wait_pop
#[kani::proof]
#[kani::stub(core::hint::spin_loop, spin_dev)]
#[kani::unwind(6)]
fn c05_blocking_late_flag() { blocking_body(POL_LATE, false) }

// @harness props=C05 tier=quick timeout=600 waitloop=add_notify_wait_pop
#[kani::proof]
#[kani::stub(core::hint::spin_loop, spin_dev)]
#[kani::unwind(6)]
fn c05_blocking_late_event() { blocking_body(POL_LATE, true) }
