// @mount src/device/socket/connectionmanager.rs
// @needs q_env s_vsock
//
// Connection manager level (C17 receive buffering and advertised credit, C18 connection state and isolation).
// The driver's packet I/O is replaced by stubs (VirtIOSocket::poll hands the manager one parsed event + body,
// VirtIOSocket::send_packet_to_tx_queue records the header): exactly the contract the socket-level harnesses
// (s_vsock.rs) and the OwningQueue harnesses (o_c19.rs) establish for the real functions.
// Functions encoded: VsockConnectionManager::{poll, recv, send, connect, listen, unlisten, shutdown, force_close,
// update_credit, recv_buffer_available_bytes, is_connection_established}, get_connection(_for_event),
// Connection::new, RingBuffer::{new, add, drain, used, free, is_empty}, ConnectionInfo::{update_for_event, done_forwarding}.
#![allow(unused, unsafe_op_in_unsafe_fn, clippy::all, static_mut_refs)]
use super::*;
use crate::device::socket::vsock::__verif_s_vsock::*;
use crate::device::socket::vsock::{VsockBufferStatus, VirtIOSocket};
use crate::device::socket::protocol::VirtioVsockHdr;
use crate::queue::__verif_q_env::THal;
use crate::Error;

static mut ST_EVENT: Option<VsockEvent> = None;
static mut ST_BODY: [u8; 8] = [0; 8];
static mut ST_BODY_LEN: usize = 0;
static mut ST_TX_N: usize = 0;
static mut ST_TX_OP: [u16; 4] = [0; 4];
static mut ST_TX_DST: [VsockAddr; 4] = [VsockAddr { cid: 0, port: 0 }; 4];
static mut ST_TX_SRC_PORT: [u32; 4] = [0; 4];
static mut ST_TX_BUF_ALLOC: [u32; 4] = [0; 4];
static mut ST_TX_FWD: [u32; 4] = [0; 4];

impl<H: Hal, T: Transport, const RX_BUFFER_SIZE: usize> VirtIOSocket<H, T, RX_BUFFER_SIZE> {
    fn stub_poll(&mut self, handler: impl FnOnce(VsockEvent, &[u8]) -> Result<Option<VsockEvent>>) -> Result<Option<VsockEvent>> {
        unsafe {
            match (*core::ptr::addr_of_mut!(ST_EVENT)).take() {
                None => Ok(None),
                Some(e) => {
                    let b: &[u8; 8] = &*core::ptr::addr_of!(ST_BODY);
                    handler(e, &b[..ST_BODY_LEN])
                }
            }
        }
    }
    fn stub_send_packet(&mut self, header: &VirtioVsockHdr, _buffer: &[u8]) -> Result {
        unsafe {
            assert!(ST_TX_N < 4, "C18: more packets sent than any single operation allows");
            ST_TX_OP[ST_TX_N] = header.op.get();
            ST_TX_DST[ST_TX_N] = VsockAddr { cid: header.dst_cid.get(), port: header.dst_port.get() };
            ST_TX_SRC_PORT[ST_TX_N] = header.src_port.get();
            ST_TX_BUF_ALLOC[ST_TX_N] = header.buf_alloc.get();
            ST_TX_FWD[ST_TX_N] = header.fwd_cnt.get();
            ST_TX_N += 1;
        }
        Ok(())
    }
}

// ---- ring buffer: one step from an arbitrary state ------------------------------------------------------------------
fn ring_body<const CAP: usize>() {
    let contents: [u8; CAP] = kani::any();
    let mut rb = RingBuffer::new(CAP);
    let (start, used): (usize, usize) = (kani::any(), kani::any());
    kani::assume(start < CAP && used <= CAP);
    let mut i = 0;
    while i < CAP {
        rb.buffer[i] = contents[i];
        i += 1;
    }
    rb.start = start;
    rb.used = used;
    let fifo = |j: usize| contents[(start + j) % CAP]; // ghost: j-th oldest byte
    let add: bool = kani::any();
    if add {
        let data: [u8; 4] = kani::any();
        let n: usize = kani::any();
        kani::assume(n <= 4);
        let r = rb.add(&data[..n]);
        assert!(r == (n <= CAP - used), "C17: data must be buffered exactly when it fits the free space");
        if r {
            assert!(rb.used() == used + n && rb.free() == CAP - used - n, "C17: buffered byte count after add");
            let j: usize = kani::any();
            kani::assume(j < used + n);
            let got = rb.buffer[(rb.start + j) % CAP];
            assert!(got == if j < used { fifo(j) } else { data[j - used] }, "C17: add must append after the bytes already buffered, preserving order");
        } else {
            assert!(rb.used() == used && rb.start == start, "C17: refused add must change nothing");
        }
    } else {
        let mut out = [0u8; 4];
        let m: usize = kani::any();
        kani::assume(m <= 4);
        let r = rb.drain(&mut out[..m]);
        let want = if used < m { used } else { m };
        assert!(r == want && rb.used() == used - want, "C17: drain must return min(buffered, requested) bytes");
        let j: usize = kani::any();
        kani::assume(j < 4);
        if j < want { assert!(out[j] == fifo(j), "C17: drain must return the oldest bytes in order"); }
        // what stays buffered is the rest, still in order
        let k: usize = kani::any();
        kani::assume(k < CAP);
        if k < used - want { assert!(rb.buffer[(rb.start + k) % CAP] == fifo(want + k), "C17: bytes left in the buffer after a drain"); }
    }
    assert!(rb.start < CAP && rb.used <= CAP && rb.is_empty() == (rb.used == 0), "C17: ring buffer invariant");
    kani::cover!(if CAP >= 2 { add && start + used > CAP && used < CAP } else { add && used == 0 });
    kani::cover!(if CAP >= 3 { !add && start + 2 > CAP && used >= 3 } else { !add && used == CAP });
}

// @harness props=C17 tier=quick timeout=900
#[kani::proof]
#[kani::unwind(10)]
fn c17_ringbuffer_step_8() { ring_body::<8>() }

// @harness props=C17 tier=quick timeout=900
#[kani::proof]
#[kani::unwind(10)]
fn c17_ringbuffer_step_3() { ring_body::<3>() }

// @harness props=C17 tier=thorough timeout=900
#[kani::proof]
#[kani::unwind(10)]
fn c17_ringbuffer_step_1() { ring_body::<1>() }

// ---- manager over a stubbed driver ----------------------------------------------------------------------------------
type Mgr = VsockConnectionManager<THal<8>, crate::queue::__verif_q_env::MT<VsDev>, RXB>;
const CAP: u32 = 8;
const GCID: u64 = 3;

/// put connection `c` (created by the real connect()) into an arbitrary state
/// `ring`: concrete (start, used) for harnesses whose step copies bytes (constant-size copies)
fn havoc_conn(c: &mut Connection, peer: VsockAddr, port: u32, ring: Option<(usize, usize)>) {
    c.info = any_info_for(peer, port, CAP);
    c.established = kani::any();
    c.peer_requested_shutdown = kani::any();
    let (start, used): (usize, usize) = if let Some(r) = ring { r } else { (kani::any(), kani::any()) };
    kani::assume(start < CAP as usize && used <= CAP as usize);
    c.buffer.start = start;
    c.buffer.used = used;
    // the peer asks for shutdown only while data is still buffered (otherwise the connection is removed at once)
    kani::assume(!c.peer_requested_shutdown || used > 0);
}

/// manager with two connections (distinct (peer, local port) pairs) in arbitrary states and one listening port
fn mk_mgr() -> (Mgr, [VsockAddr; 2], [u32; 2], u32) { mk_mgr_at(None) }
fn mk_mgr_at(ring0: Option<(usize, usize)>) -> (Mgr, [VsockAddr; 2], [u32; 2], u32) { mk_mgr_n(ring0, 2) }
fn mk_mgr_n(ring0: Option<(usize, usize)>, nconn: usize) -> (Mgr, [VsockAddr; 2], [u32; 2], u32) {
    let sock = mk_sock_stubbed(GCID);
    let mut m: Mgr = VsockConnectionManager::new_with_capacity(sock, CAP);
    let peers = [VsockAddr { cid: kani::any(), port: kani::any() }, VsockAddr { cid: kani::any(), port: kani::any() }];
    let ports: [u32; 2] = kani::any();
    kani::assume(!(peers[0] == peers[1] && ports[0] == ports[1]));
    m.connect(peers[0], ports[0]).unwrap();
    havoc_conn(&mut m.connections[0], peers[0], ports[0], ring0);
    if nconn == 2 {
        m.connect(peers[1], ports[1]).unwrap();
        havoc_conn(&mut m.connections[1], peers[1], ports[1], None);
    }
    let lp: u32 = kani::any();
    m.listen(lp);
    unsafe { ST_TX_N = 0; }
    (m, peers, ports, lp)
}
fn snap(c: &Connection) -> (ConnectionInfo, usize, usize, bool, bool) {
    (c.info.clone(), c.buffer.start, c.buffer.used, c.established, c.peer_requested_shutdown)
}

// one arbitrary incoming event against the reference transition function
// @harness props=C18 tier=quick timeout=3600 stubbed=vsock-io
#[kani::proof]
#[kani::stub(VirtIOSocket::poll, VirtIOSocket::stub_poll)]
#[kani::stub(VirtIOSocket::send_packet_to_tx_queue, VirtIOSocket::stub_send_packet)]
#[kani::unwind(12)]
fn c18_dispatch_one() { dispatch_body(1) }

// two connections: isolation between connections (thorough: ~15 min)
// @harness props=C18,C17 tier=thorough timeout=5400 stubbed=vsock-io
#[kani::proof]
#[kani::stub(VirtIOSocket::poll, VirtIOSocket::stub_poll)]
#[kani::stub(VirtIOSocket::send_packet_to_tx_queue, VirtIOSocket::stub_send_packet)]
#[kani::unwind(12)]
fn c18_dispatch_two() { dispatch_body(2) }

// two connections, connection requests only (isolation on the request path)
// @harness props=C18 tier=thorough timeout=5400 stubbed=vsock-io
#[kani::proof]
#[kani::stub(VirtIOSocket::poll, VirtIOSocket::stub_poll)]
#[kani::stub(VirtIOSocket::send_packet_to_tx_queue, VirtIOSocket::stub_send_packet)]
#[kani::unwind(12)]
fn c18_dispatch_two_request() {
    let w = dispatch_body_ev(2, 0, false);
    kani::cover!(w[3]);   // request matching an existing connection on a port nobody listens on
    kani::cover!(w[4]);   // fresh request to the listening port
}

// two connections, a connection request addressed to the FIRST of them (quick-tier slice of the harness above:
// accepted on the listening port, otherwise reset and exactly that connection removed, the other one untouched)
// @harness props=C18 tier=quick timeout=3600 stubbed=vsock-io
#[kani::proof]
#[kani::stub(VirtIOSocket::poll, VirtIOSocket::stub_poll)]
#[kani::stub(VirtIOSocket::send_packet_to_tx_queue, VirtIOSocket::stub_send_packet)]
#[kani::unwind(12)]
fn c18_request_to_first_of_two() {
    let w = dispatch_body_ev(2, 0, true);
    kani::cover!(w[3]);
}

fn dispatch_body(nconn: usize) {
    let w = dispatch_body_ev(nconn, 6, false);
    kani::cover!(w[0]);
    kani::cover!(w[1]);
    kani::cover!(w[2]);
}
/// `only`: restrict the event type (6 = any of the six control events)
fn dispatch_body_ev(nconn: usize, only: u8, target0: bool) -> [bool; 5] {
    let (mut m, peers, ports, lp) = mk_mgr_n(None, nconn);
    let s0 = [snap(&m.connections[0]), snap(&m.connections[nconn - 1])];
    // `target0`: the event is addressed to connection 0 by construction (not by a symbolic comparison), so that the
    // manager's table index is concrete - the general case (symbolic index into Vec::swap_remove's copy) is what
    // makes c18_dispatch_two* take 12-15 minutes
    let src = if target0 { peers[0] } else { VsockAddr { cid: kani::any(), port: kani::any() } };
    let dst = if target0 { VsockAddr { cid: GCID, port: ports[0] } } else { VsockAddr { cid: kani::any(), port: kani::any() } };
    let blen: usize = 0;
    let sel: u8 = if only < 6 { only } else { kani::any::<u8>() % 6 };
    let et = match sel {
        0 => VsockEventType::ConnectionRequest,
        1 => VsockEventType::Connected,
        2 => VsockEventType::Disconnected { reason: DisconnectReason::Reset },
        3 => VsockEventType::Disconnected { reason: DisconnectReason::Shutdown },
        4 => VsockEventType::CreditRequest,
        _ => VsockEventType::CreditUpdate,
    };
    let is_rx = matches!(et, VsockEventType::Received { .. });
    let (ba, fc): (u32, u32) = (kani::any(), kani::any());
    unsafe {
        ST_EVENT = Some(VsockEvent { source: src, destination: dst, buffer_status: VsockBufferStatus { buffer_allocation: ba, forward_count: fc }, event_type: et.clone() });
        ST_BODY = kani::any();
        ST_BODY_LEN = if is_rx { blen } else { 0 };
    }
    let r = m.poll();
    let m0 = src == peers[0] && dst.cid == GCID && dst.port == ports[0];
    let m1 = nconn == 2 && !m0 && src == peers[1] && dst.cid == GCID && dst.port == ports[1];
    let n_tx = unsafe { ST_TX_N };
    if !m0 && !m1 {
        if et == VsockEventType::ConnectionRequest && dst.cid == GCID {
            if dst.port == lp {
                assert!(r.as_ref().map(|e| e.is_some()) == Ok(true), "C18: a request to a listening port must be reported");
                assert!(n_tx == 1 && unsafe { ST_TX_OP[0] == 2 && ST_TX_DST[0] == src && ST_TX_SRC_PORT[0] == dst.port }, "C18: a request to a listening port must be answered with a response to the requester");
                assert!(m.connections.len() == nconn + 1 && m.connections[nconn].established && m.connections[nconn].info.dst == src && m.connections[nconn].info.src_port == dst.port, "C18: accepted connection must be recorded as established");
                assert!(m.connections[nconn].info.buf_alloc == CAP && unsafe { ST_TX_BUF_ALLOC[0] } == CAP, "C17: advertised buffer allocation must be the connection's buffer capacity");
            } else {
                assert!(r == Ok(None), "C18: a request to a port nobody listens on must not be reported");
                assert!(n_tx == 1 && unsafe { ST_TX_OP[0] == 3 && ST_TX_DST[0] == src }, "C18: a request to a port nobody listens on must be reset");
                assert!(m.connections.len() == nconn, "C18: rejected request must leave no connection state");
            }
        } else {
            // packets matching no known connection (or requests for a foreign CID): nothing happens
            assert!(r == Ok(None) && n_tx == 0 && m.connections.len() == nconn, "C18: a packet matching no known connection must create no state, deliver nothing and send nothing");
        }
        // the existing connections are untouched in every one of these cases
        assert!(snap(&m.connections[0]) == s0[0] && snap(&m.connections[nconn - 1]) == s0[1], "C18: a packet for an unknown connection changed an existing connection");
    } else {
        let (me, other) = if m0 { (0usize, 1usize) } else { (1, 0) };
        let old = &s0[me];
        // isolation: the other connection is bit-for-bit unchanged (it may have moved if `me` was removed)
        let removed = m.connections.len() == nconn - 1;
        if nconn == 2 {
            let other_now = if removed { snap(&m.connections[0]) } else { snap(&m.connections[other]) };
            assert!(other_now == s0[other], "C18: an event for one connection affected another connection");
        }
        match et {
            VsockEventType::ConnectionRequest => {
                // a request that matches an existing connection: handled per the listening state of its port,
                // and only THAT connection is affected
                assert!(n_tx == 1 && unsafe { ST_TX_DST[0] } == src, "C18: request for an existing connection is answered once, to the requester");
                if dst.port == lp {
                    assert!(unsafe { ST_TX_OP[0] } == 2 && !removed && m.connections[me].established, "C18: request on a listening port is accepted");
                } else {
                    assert!(unsafe { ST_TX_OP[0] } == 3 && removed && r == Ok(None), "C18: request on a port nobody listens on is reset and that connection - no other - is removed");
                }
            }
            VsockEventType::Connected => {
                assert!(r.as_ref().map(|e| e.is_some()) == Ok(true) && n_tx == 0 && !removed && m.connections[me].established, "C18: a response establishes the connection");
            }
            VsockEventType::Disconnected { reason } => {
                assert!(r.as_ref().map(|e| e.is_some()) == Ok(true), "C18: disconnection must be reported");
                if old.2 == 0 {
                    assert!(removed, "C18: a disconnected connection without buffered data must be removed");
                    assert!(n_tx == if reason == DisconnectReason::Shutdown { 1 } else { 0 }, "C18: a peer shutdown is answered with a reset, a reset is not");
                    if n_tx == 1 { assert!(unsafe { ST_TX_OP[0] == 3 && ST_TX_DST[0] == src }, "C18: reset after shutdown goes to the peer"); }
                } else {
                    assert!(!removed && m.connections[me].peer_requested_shutdown && n_tx == 0 && m.connections[me].buffer.used == old.2, "C18: after a peer shutdown buffered data must remain readable");
                }
            }
            VsockEventType::CreditRequest => {
                assert!(r == Ok(None) && n_tx == 1 && unsafe { ST_TX_OP[0] == 6 && ST_TX_DST[0] == src && ST_TX_FWD[0] == ci_fwd_cnt(&old.0) && ST_TX_BUF_ALLOC[0] == CAP }, "C17: a credit request must be answered with the current allocation and forwarded count");
            }
            VsockEventType::CreditUpdate => {
                assert!(r.as_ref().map(|e| e.is_some()) == Ok(true) && n_tx == 0 && !ci_pending(&m.connections[me].info), "C17: a credit update clears the pending request");
            }
            VsockEventType::Received { .. } => {
                if blen <= CAP as usize - old.2 {
                    assert!(r.as_ref().map(|e| e.is_some()) == Ok(true), "C17: data that fits must be accepted");
                    assert!(m.connections[me].buffer.used == old.2 + blen, "C17: every accepted payload byte must be buffered exactly once");
                    let j: usize = kani::any();
                    kani::assume(j < 8);
                    if j < blen {
                        let b = &m.connections[me].buffer;
                        assert!(b.buffer[(b.start + old.2 + j) % CAP as usize] == unsafe { ST_BODY[j] }, "C17: buffered bytes must be the packet's bytes, after those already buffered");
                    }
                } else {
                    assert!(r == Err(SocketError::OutputBufferTooShort(blen).into()), "C17: data exceeding the advertised free space must be reported, not silently dropped");
                    assert!(m.connections[me].buffer.used == old.2, "C17: rejected data must not be partially buffered");
                }
                assert!(n_tx == 0, "C18: data packets are not answered");
            }
        }
        if !removed {
            // peer credit fields are taken from every packet of the connection
            assert!(m.connections[me].info.dst == old.0.dst && m.connections[me].info.src_port == old.0.src_port && ci_fwd_cnt(&m.connections[me].info) == ci_fwd_cnt(&old.0) && m.connections[me].info.buf_alloc == CAP, "C18: connection identity / own credit state changed by a peer packet");
        }
    }
    core::mem::forget(m);
    // witnesses for the callers' cover! statements (a cover is a solver call of its own: each harness states only
    // the ones that are meaningful for its instantiation)
    [
        (m1 || nconn == 1 && m0) && et == VsockEventType::CreditRequest,
        !m0 && !m1 && et == VsockEventType::ConnectionRequest && dst.cid == GCID && dst.port == lp,
        m0 && et == VsockEventType::Disconnected { reason: DisconnectReason::Shutdown } && s0[0].2 > 0,
        m0 && dst.port != lp,
        !m0 && !m1 && dst.cid == GCID && dst.port == lp,
    ]
}

// recv: drains in order, forwards exactly what it drained, closes a shut-down connection once drained
// @harness props=C17,C18 tier=thorough timeout=5400 stubbed=vsock-io
#[kani::proof]
#[kani::stub(VirtIOSocket::poll, VirtIOSocket::stub_poll)]
#[kani::stub(VirtIOSocket::send_packet_to_tx_queue, VirtIOSocket::stub_send_packet)]
#[kani::unwind(12)]
fn c17_manager_recv_step() { recv_body(Some((7, 3)), 4, 2) }

// @harness props=C17 tier=quick timeout=3600 stubbed=vsock-io
#[kani::proof]
#[kani::stub(VirtIOSocket::poll, VirtIOSocket::stub_poll)]
#[kani::stub(VirtIOSocket::send_packet_to_tx_queue, VirtIOSocket::stub_send_packet)]
#[kani::unwind(12)]
fn c17_manager_recv_one() { recv_body(Some((7, 3)), 4, 1) }

// @harness props=C17,C18 tier=thorough timeout=5400 stubbed=vsock-io
#[kani::proof]
#[kani::stub(VirtIOSocket::poll, VirtIOSocket::stub_poll)]
#[kani::stub(VirtIOSocket::send_packet_to_tx_queue, VirtIOSocket::stub_send_packet)]
#[kani::unwind(12)]
fn c17_manager_recv_partial() { recv_body(Some((6, 5)), 2, 2) }

// @harness props=C17,C18 tier=thorough timeout=3600 stubbed=vsock-io
#[kani::proof]
#[kani::stub(VirtIOSocket::poll, VirtIOSocket::stub_poll)]
#[kani::stub(VirtIOSocket::send_packet_to_tx_queue, VirtIOSocket::stub_send_packet)]
#[kani::unwind(12)]
fn c17_manager_recv_empty() { recv_body(Some((2, 0)), 4, 1) }

fn recv_body(ring0: Option<(usize, usize)>, n: usize, nconn: usize) {
    let (mut m, peers, ports, _lp) = mk_mgr_n(ring0, nconn);
    let b: [u8; 8] = kani::any();
    let mut i = 0;
    while i < 8 {
        m.connections[0].buffer.buffer[i] = b[i];
        i += 1;
    }
    let s0 = [snap(&m.connections[0]), snap(&m.connections[nconn - 1])];
    let first: [u8; 2] = [m.connections[0].buffer.buffer[m.connections[0].buffer.start], m.connections[0].buffer.buffer[(m.connections[0].buffer.start + 1) % CAP as usize]];
    let mut out = [0u8; 4];
    let r = m.recv(peers[0], ports[0], &mut out[..n]);
    let used = s0[0].2;
    let want = if used < n { used } else { n };
    assert!(r == Ok(want), "C17: recv must return min(buffered, requested) bytes");
    if want >= 1 { assert!(out[0] == first[0], "C17: bytes read from a connection must be the oldest buffered bytes, in order"); }
    if want >= 2 { assert!(out[1] == first[1], "C17: bytes read from a connection must be the oldest buffered bytes, in order"); }
    let closing = s0[0].4 && used == want;
    if closing {
        assert!(m.connections.len() == nconn - 1 && unsafe { ST_TX_N == 1 && ST_TX_OP[0] == 3 && ST_TX_DST[0] == peers[0] }, "C18: after a peer shutdown the connection is closed with a reset once drained");
        if nconn == 2 { assert!(snap(&m.connections[0]) == s0[1], "C18: closing one connection affected another"); }
    } else {
        assert!(m.connections.len() == nconn && unsafe { ST_TX_N } == 0, "C18: recv must not send or remove anything otherwise");
        let c = &m.connections[0];
        assert!(c.buffer.used == used - want, "C17: recv must consume exactly what it returned");
        // advertised credit never overstates free space: forwarded count advances by exactly the drained bytes
        assert!(ci_fwd_cnt(&c.info) == ci_fwd_cnt(&s0[0].0).wrapping_add(want as u32), "C17: forwarded-byte count must advance by exactly the bytes handed to the caller (modulo 2^32)");
        if nconn == 2 { assert!(snap(&m.connections[1]) == s0[1], "C18: recv on one connection affected another"); }
    }
    // unknown connection
    let up = VsockAddr { cid: kani::any(), port: kani::any() };
    let uport: u32 = kani::any();
    kani::assume(!(up == peers[0] && uport == ports[0]) && !(nconn == 2 && up == peers[1] && uport == ports[1]));
    let before = m.connections.len();
    assert!(m.recv(up, uport, &mut out) == Err(SocketError::NotConnected.into()), "C18: operations on unknown connections must fail with NotConnected");
    assert!(m.recv_buffer_available_bytes(up, uport) == Err(SocketError::NotConnected.into()) && m.shutdown(up, uport) == Err(SocketError::NotConnected.into()) && m.force_close(up, uport) == Err(SocketError::NotConnected.into()) && m.update_credit(up, uport) == Err(SocketError::NotConnected.into()) && m.send(up, uport, &out) == Err(SocketError::NotConnected.into()), "C18: operations on unknown connections must fail with NotConnected");
    assert!(m.connections.len() == before, "C18: failed operations must not change the connection table");
    core::mem::forget(m);
    kani::cover!(closing || used > want || used == 0);
    kani::cover!(ci_fwd_cnt(&s0[0].0) > 0xffff_fffd);
}

// local operations: duplicate connect, listen/unlisten idempotent, force_close removes exactly one entry
// @harness props=C18 tier=thorough timeout=3600 stubbed=vsock-io
#[kani::proof]
#[kani::stub(VirtIOSocket::poll, VirtIOSocket::stub_poll)]
#[kani::stub(VirtIOSocket::send_packet_to_tx_queue, VirtIOSocket::stub_send_packet)]
#[kani::unwind(12)]
fn c18_local_ops() {
    let (mut m, peers, ports, lp) = mk_mgr_n(Some((0, 0)), 1);
    assert!(m.connect(peers[0], ports[0]) == Err(SocketError::ConnectionExists.into()) && unsafe { ST_TX_N } == 0 && m.connections.len() == 1, "C18: duplicate connect must fail with ConnectionExists and send nothing");
    let np = VsockAddr { cid: kani::any(), port: kani::any() };
    let nport: u32 = kani::any();
    kani::assume(!(np == peers[0] && nport == ports[0]));
    assert!(m.connect(np, nport).is_ok() && m.connections.len() == 2 && unsafe { ST_TX_N == 1 && ST_TX_OP[0] == 1 && ST_TX_DST[0] == np && ST_TX_SRC_PORT[0] == nport && ST_TX_BUF_ALLOC[0] == CAP }, "C18: connect sends one request and records the connection");
    assert!(!m.connections[1].established && m.is_connection_established(np, nport) == Ok(false), "C18: a requested connection is not established until the peer responds");
    m.listen(lp);
    m.listen(lp);
    assert!(m.listening_ports.len() == 1, "C18: listen must be idempotent");
    m.unlisten(lp);
    m.unlisten(lp);
    assert!(m.listening_ports.is_empty(), "C18: unlisten must be idempotent");
    unsafe { ST_TX_N = 0; }
    assert!(m.force_close(peers[0], ports[0]).is_ok() && m.connections.len() == 1 && unsafe { ST_TX_N == 1 && ST_TX_OP[0] == 3 && ST_TX_DST[0] == peers[0] }, "C18: force_close resets and removes exactly that connection");
    assert!(m.connections[0].info.dst == np && m.connections[0].info.src_port == nport, "C18: force_close removed the wrong connection");
    core::mem::forget(m);
    kani::cover!(np == peers[0]);
    kani::cover!(lp == ports[0]);
}

// a data packet for a known connection: buffered after what is already there iff it fits (constant sizes per instantiation)
fn rx_body(ring0: (usize, usize), blen: usize) {
    let (mut m, peers, ports, _lp) = mk_mgr_at(Some(ring0));
    let s0 = [snap(&m.connections[0]), snap(&m.connections[1])];
    let body: [u8; 8] = kani::any();
    let (ba, fc): (u32, u32) = (kani::any(), kani::any());
    unsafe {
        ST_EVENT = Some(VsockEvent { source: peers[0], destination: VsockAddr { cid: GCID, port: ports[0] }, buffer_status: VsockBufferStatus { buffer_allocation: ba, forward_count: fc }, event_type: VsockEventType::Received { length: blen } });
        ST_BODY = body;
        ST_BODY_LEN = blen;
    }
    let r = m.poll();
    let used = ring0.1;
    if blen <= CAP as usize - used {
        assert!(r.as_ref().map(|e| e.is_some()) == Ok(true), "C17: data that fits must be accepted");
        let bf = &m.connections[0].buffer;
        assert!(bf.used == used + blen && bf.start == ring0.0, "C17: every accepted payload byte must be buffered exactly once");
        let j: usize = kani::any();
        kani::assume(j < 8);
        if j < blen { assert!(bf.buffer[(bf.start + used + j) % CAP as usize] == body[j], "C17: buffered bytes must be the packet's bytes, after those already buffered"); }
    } else {
        assert!(r == Err(SocketError::OutputBufferTooShort(blen).into()), "C17: data exceeding the advertised free space must be reported, not silently dropped");
        assert!(m.connections[0].buffer.used == used, "C17: rejected data must not be partially buffered");
    }
    assert!(unsafe { ST_TX_N } == 0 && m.connections.len() == 2 && snap(&m.connections[1]) == s0[1], "C18: data for one connection affected another / was answered");
    assert!(ci_fwd_cnt(&m.connections[0].info) == ci_fwd_cnt(&s0[0].0), "C17: receiving must not advance the forwarded count (only recv does)");
    core::mem::forget(m);
    kani::cover!(body[0] == 0x55);
    kani::cover!(ba == 0 && fc == 0xffff_ffff);
}

// @harness props=C17 tier=quick timeout=3600 stubbed=vsock-io
#[kani::proof]
#[kani::stub(VirtIOSocket::poll, VirtIOSocket::stub_poll)]
#[kani::stub(VirtIOSocket::send_packet_to_tx_queue, VirtIOSocket::stub_send_packet)]
#[kani::unwind(12)]
fn c17_manager_rx_fits_wrapping() { rx_body((6, 1), 4) }

// @harness props=C17 tier=thorough timeout=3600 stubbed=vsock-io
#[kani::proof]
#[kani::stub(VirtIOSocket::poll, VirtIOSocket::stub_poll)]
#[kani::stub(VirtIOSocket::send_packet_to_tx_queue, VirtIOSocket::stub_send_packet)]
#[kani::unwind(12)]
fn c17_manager_rx_too_big() { rx_body((3, 5), 4) }

// @harness props=C17,C18 tier=thorough timeout=3600 stubbed=vsock-io
#[kani::proof]
#[kani::stub(VirtIOSocket::poll, VirtIOSocket::stub_poll)]
#[kani::stub(VirtIOSocket::send_packet_to_tx_queue, VirtIOSocket::stub_send_packet)]
#[kani::unwind(12)]
fn c17_manager_rx_exact_fill() { rx_body((0, 0), 8) }

// quick-tier slice of c18_local_ops: a second connect to the same (peer, local port) is refused
// @harness props=C18 tier=quick timeout=3600 stubbed=vsock-io
#[kani::proof]
#[kani::stub(VirtIOSocket::poll, VirtIOSocket::stub_poll)]
#[kani::stub(VirtIOSocket::send_packet_to_tx_queue, VirtIOSocket::stub_send_packet)]
#[kani::unwind(12)]
fn c18_duplicate_connect() {
    let (mut m, peers, ports, _lp) = mk_mgr_n(Some((0, 0)), 1);
    let s0 = snap(&m.connections[0]);
    assert!(m.connect(peers[0], ports[0]) == Err(SocketError::ConnectionExists.into()), "C18: duplicate connect must fail with ConnectionExists");
    assert!(unsafe { ST_TX_N } == 0 && m.connections.len() == 1 && snap(&m.connections[0]) == s0, "C18: a refused connect must send nothing and change nothing");
    core::mem::forget(m);
    kani::cover!(peers[0].cid == 2);
    kani::cover!(ports[0] == 0);
}
