// @mount src/queue/owning.rs
// @needs q_env
//
// C19 - queues the driver keeps stocked with its own buffers: OwningQueue (socket receive, sound events).
// Also the C07 clauses for OwningQueue (hostile id / length) and the C18 clause "every received packet returns
// its buffer whatever the handler says".  Functions encoded: OwningQueue::{new, pop, poll,
// add_buffer_to_queue, should_notify, drop}, VirtQueue::{add, pop_used, peek_used}.
#![allow(unused, unsafe_op_in_unsafe_fn, clippy::all, static_mut_refs)]
use super::*;
use crate::queue::__verif_q_env::*;

struct EvDev;
impl DevModel for EvDev {
    fn on_notify(_q: u16) {}
}

const B: usize = 8;

/// All N buffers posted, token i <-> buffer i, ring indices arbitrary (the queue has been running for any time).
fn mk<const N: usize>() -> (OwningQueue<THal<N>, N, B>, MT<EvDev>, u16) {
    lg_init_concrete();
    let mut t = mt::<EvDev>(DeviceType::Socket, 0);
    unsafe { DRIVER_OK_SEEN = true; }
    let q = VirtQueue::<THal<N>, N>::new(&mut t, 0, false, kani::any(), false).unwrap();
    let mut oq = OwningQueue::<THal<N>, N, B>::new(q).unwrap();
    // C19: construction posts every buffer, token i <-> buffer i
    assert!(q_num_used(&oq.queue) == N as u16 && dev_avail_idx::<N>(0) == N as u16, "C19: construction must post every buffer");
    let mut i = 0;
    while i < N {
        assert!(dev_avail_slot::<N>(0, i as u16) == i as u16, "C19: token i must be buffer i");
        i += 1;
    }
    let base: u16 = kani::any();
    q_shift_indices(&mut oq.queue, base);
    unsafe { QS[0].last = base; }
    (oq, t, base)
}

fn poll_step_body<const N: usize>() {
    let (mut oq, mut t, base) = mk::<N>();
    // the device completes m <= N distinct posted buffers in an order of its choice
    let m: usize = kani::any();
    kani::assume(m <= N);
    let order: [u16; N] = kani::any();
    let lens: [u32; N] = kani::any();
    let bytes: [[u8; B]; N] = kani::any();
    let mut i = 0;
    while i < N {
        kani::assume((order[i] as usize) < N);
        let mut j = 0;
        while j < i {
            kani::assume(order[j] != order[i]);
            j += 1;
        }
        i += 1;
    }
    i = 0;
    while i < N {
        if i < m {
            kani::assume(lens[i] as usize <= B);
            let c = dev_chain::<N>(0, order[i], false);
            assert!(c.n == 1 && c.write[0] && c.len[0] as usize == B, "C19: every posted buffer is one device-writable part of the buffer size");
            let mut k = 0;
            while k < B {
                if (k as u32) < lens[i] { unsafe { dev_wr(&c, 0, k, bytes[i][k]); } }
                k += 1;
            }
            dev_complete::<N>(0, order[i], lens[i]);
        }
        i += 1;
    }
    let ev0 = unsafe { EV_N };
    let hret: u8 = kani::any(); // what the handler answers: 0 Ok(None), 1 Ok(Some), 2 Err
    let mut seen_len = usize::MAX;
    let mut seen = [0u8; B];
    let r = oq.poll(&mut t, |buf| {
        seen_len = buf.len();
        let mut k = 0;
        while k < B {
            if k < buf.len() { seen[k] = buf[k]; }
            k += 1;
        }
        match hret { 0 => Ok(None), 1 => Ok(Some(7u32)), _ => Err(Error::IoError) }
    });
    if m == 0 {
        assert!(r == Ok(None) && seen_len == usize::MAX, "C19: nothing completed, nothing delivered");
        assert!(dev_avail_idx::<N>(0) == base.wrapping_add(N as u16), "C19: nothing re-posted");
    } else {
        let first = order[0] as usize;
        assert!(seen_len == lens[0] as usize, "C19: delivery must expose exactly the bytes the device wrote, never more than the buffer holds");
        let k: usize = kani::any();
        kani::assume(k < B);
        if k < seen_len { assert!(seen[k] == bytes[0][k], "C19: delivered bytes differ from what the device wrote"); }
        assert!(r == match hret { 0 => Ok(None), 1 => Ok(Some(7u32)), _ => Err(Error::IoError) }, "C19: poll must return the handler's value");
        // the buffer is posted again under the same token, whatever the handler said
        assert!(q_num_used(&oq.queue) == N as u16, "C19: posted buffers must return to the queue size after every poll");
        assert!(dev_avail_idx::<N>(0) == base.wrapping_add(N as u16 + 1), "C19: exactly one buffer re-posted");
        assert!(dev_avail_slot::<N>(0, base.wrapping_add(N as u16)) == first as u16, "C19: buffer must be posted again under the same token");
        let c = dev_chain::<N>(0, first as u16, false);
        assert!(c.n == 1 && c.write[0] && c.ptr[0] == oq.buffers[first].as_ptr() as *mut u8, "C19: token no longer refers to its own buffer");
        assert!(q_last_used(&oq.queue) == base.wrapping_add(1), "C19: exactly one completion consumed per poll");
    }
    core::mem::forget(oq);
    kani::cover!(m == N && order[0] == (N - 1) as u16 && base == 0xffff);
    kani::cover!(m == 1 && lens[0] == 0 && hret == 2);
}

// @harness props=C19,C18 tier=quick timeout=1200
#[kani::proof]
#[kani::unwind(10)]
fn c19_poll_step_4() { poll_step_body::<4>() }

// @harness props=C19,C18 tier=thorough timeout=1800
#[kani::proof]
#[kani::unwind(10)]
fn c19_poll_step_2() { poll_step_body::<2>() }

// @harness props=C19,C18 tier=thorough timeout=3600
#[kani::proof]
#[kani::unwind(10)]
fn c19_poll_step_8() { poll_step_body::<8>() }

// hostile device (C07): arbitrary id and length in the used ring
// @harness props=C07,C19 tier=quick timeout=1200 panic=clean
#[kani::proof]
#[kani::unwind(10)]
fn c07_owning_hostile_used_4() {
    const N: usize = 4;
    let (mut oq, mut t, base) = mk::<N>();
    let id: u32 = kani::any();
    let len: u32 = kani::any();
    dev_hostile_used::<N>(0, base, id, len, base.wrapping_add(kani::any::<u16>()));
    let mut seen_len = 0usize;
    let r = oq.poll(&mut t, |buf| {
        seen_len = buf.len();
        Ok(Some(buf.len()))
    });
    match r {
        Ok(Some(l)) => {
            assert!(l <= B && (id as u16 as usize) < N && len as usize <= B, "C07: slice handed to the caller exceeds its backing buffer / unknown token accepted");
        }
        Ok(None) => {}
        Err(e) => assert!(e == Error::WrongToken || e == Error::IoError || e == Error::NotReady || e == Error::QueueFull, "C07: unexpected error kind"),
    }
    core::mem::forget(oq);
    kani::cover!(matches!(r, Ok(Some(_))));
    kani::cover!(r == Err(Error::IoError));
    kani::cover!(r == Err(Error::WrongToken));
}

// drop frees every buffer exactly once
// @harness props=C19,C09 tier=quick timeout=1200
#[kani::proof]
#[kani::unwind(14)]
fn c19_owning_drop_2() {
    const N: usize = 2;
    let (oq, t, _base) = mk::<N>();
    drop(oq);
    assert!(dma_live_count() == 0, "C09: queue memory must be returned when the owning queue goes away");
    core::mem::forget(t);
    kani::cover!(unsafe { DMA[0].deallocs == 1 });
}

// hostile device, two steps (C07): it first reports more bytes than the buffer holds (the poll fails; before fix 924c39b the buffer was
// not re-posted - finding F8), then names the same buffer again
// @harness props=C07 tier=quick timeout=1800 panic=clean
#[kani::proof]
#[kani::unwind(10)]
fn c07_owning_repeat_after_error_4() {
    const N: usize = 4;
    let (mut oq, mut t, base) = mk::<N>();
    let x: u16 = kani::any();
    kani::assume((x as usize) < N);
    let big: u32 = kani::any();
    kani::assume(big as usize > B);
    dev_hostile_used::<N>(0, base, x as u32, big, base.wrapping_add(1));
    let r1 = oq.poll(&mut t, |_b| Ok(Some(1u8)));
    assert!(r1 == Err(Error::IoError), "C07: a used length beyond the buffer must be refused");
    // the device repeats the id
    dev_hostile_used::<N>(0, base.wrapping_add(1), x as u32, kani::any(), base.wrapping_add(2));
    let mut seen = usize::MAX;
    let r2 = oq.poll(&mut t, |b| { seen = b.len(); Ok(Some(2u8)) });
    // whatever the outcome (result, error or clean panic), no share may be released twice: the ledger Hal asserts it
    if seen != usize::MAX { assert!(seen <= B, "C07: slice handed to the caller exceeds its backing buffer"); }
    core::mem::forget(oq);
    kani::cover!(r2.is_err());
    kani::cover!(x == 3);
}
