// @mount src/queue.rs
// @needs q_env
//
// Inductive step harnesses for the split virtqueue (C01, C02 frame conditions, C03, C04):
// from ANY state satisfying the representation invariant INV (q_env::inv_direct / inv_indirect), with
// ANY device-visible memory contents, run ONE public operation with ANY arguments and check the
// post-state against a reference (device-side chain walk, ledger, INV again).  Base case: C06 harnesses
// show VirtQueue::new() establishes INV.  Functions encoded: VirtQueue::{add, add_direct, add_indirect,
// write_desc, pop_used, recycle_descriptors, can_pop, peek_used, available_desc}, Descriptor::{set_buf,
// unset_buf, next}, InputOutputIter::next, take_first(_mut).
#![allow(unused, unsafe_op_in_unsafe_fn, clippy::all, static_mut_refs)]
use super::__verif_q_env::*;

fn sym_len() -> usize {
    let l: usize = kani::any();
    kani::assume(l >= 1 && l <= 4);
    l
}

/// Pre-state for direct mode: arbitrary INV state, arbitrary device-visible memory.
fn pre_direct<const N: usize>(b: &mut Backing<N>, chain0: Chain0, maxch: usize) -> (VirtQueue<LHal, N>, Ghost<N>) {
    lg_init();
    let mut q = mk_queue::<LHal, N>(b, kani::any(), false, kani::any(), kani::any());
    let g = gen_direct(&mut q, chain0, maxch);
    (q, g)
}

// ------------------------------------------------------------------------------------------------
// add(), direct descriptors
fn add_direct_body<const N: usize, const NI: usize, const NO: usize>(maxch: usize) {
    let mut b = any_backing::<N>();
    let (mut q, mut g) = pre_direct::<N>(&mut b, None, maxch);
    // a free ghost slot for the new chain
    kani::assume(g.cnt[K - 1] == 0);
    let dev0 = dev_snap(&b);
    let p0 = priv_snap(&q);
    let n0 = unsafe { LG_N };
    // caller buffers: up to MAXC inputs and MAXC outputs with symbolic lengths
    let a: [[u8; 4]; MAXC] = kani::any();
    let mut o: [[u8; 4]; MAXC] = kani::any();
    let la: [usize; MAXC] = [sym_len(), sym_len(), sym_len(), sym_len()];
    let lo: [usize; MAXC] = [sym_len(), sym_len(), sym_len(), sym_len()];
    let ins: [&[u8]; MAXC] = [&a[0][..la[0]], &a[1][..la[1]], &a[2][..la[2]], &a[3][..la[3]]];
    let [o0, o1, o2, o3] = &mut o;
    let mut outs: [&mut [u8]; MAXC] = [&mut o0[..lo[0]], &mut o1[..lo[1]], &mut o2[..lo[2]], &mut o3[..lo[3]]];
    let (n_in, n_out) = (NI, NO);
    let n = n_in + n_out;
    let pin: [usize; MAXC] = core::array::from_fn(|i| ins[i].as_ptr() as usize);
    let pout: [usize; MAXC] = core::array::from_fn(|i| outs[i].as_ptr() as usize);
    let avail_desc = q.available_desc();
    assert!(avail_desc == N - p0.num_used as usize, "C03: available_desc() must be SIZE minus descriptors held by outstanding chains");

    let r = unsafe { q.add(&ins[..NI], &mut outs[..NO]) };

    let nfree = N - p0.num_used as usize;
    if n == 0 {
        assert!(r == Err(Error::InvalidParam), "C03: submission without buffers must be refused with InvalidParam");
    } else if n > nfree {
        assert!(r == Err(Error::QueueFull), "C03: submission exceeding the free descriptors must be refused with QueueFull");
    }
    if n == 0 || n > nfree {
        assert!(priv_same(&q, &p0), "C03: refused submission changed driver-private state");
        assert!(dev_same(&b, &dev0), "C03: refused submission changed device-visible memory");
        assert!(unsafe { LG_N } == n0, "C04: refused submission shared a buffer");
    } else {
        assert!(r.is_ok(), "C03: submission that fits must be accepted");
        let head = r.unwrap();
        assert!(head == p0.free_head, "C01/C07: token is the head of the free list (computed from private state, whatever device-visible memory holds)");
        // ---- what the device sees
        let dev1 = dev_snap(&b);
        let slot = (p0.avail_idx as usize) & (N - 1);
        assert!(dev1.avail_idx == p0.avail_idx.wrapping_add(1), "C01/C07: available index must advance by exactly one from the driver's private copy (device-visible memory is arbitrary here)");
        assert!(q.avail_idx == dev1.avail_idx, "C01/C07: private and published available index differ");
        assert!(dev1.ring[slot] == head, "C01/C07: ring slot designated by the previous (private) available index must hold the new head");
        assert!(dev1.avail_flags == dev0.avail_flags && dev1.used_event == dev0.used_event, "C02: add() wrote avail.flags/used_event");
        let mut i = 0;
        while i < N {
            if i != slot {
                assert!(dev1.ring[i] == dev0.ring[i], "C01: add() wrote a ring slot other than the designated one");
            }
            i += 1;
        }
        assert!(unsafe { LG_N } == n0 + n, "C04: exactly one share per submitted buffer");
        // reference walk of the chain in device-visible memory
        let mut visited = [false; N];
        let mut cur = head as usize;
        let mut s = 0;
        while s < MAXC {
            if s < n {
                assert!(cur < N, "C01: descriptor index out of range");
                assert!(!visited[cur], "C01: chain is cyclic");
                visited[cur] = true;
                assert!(g.owner[cur] == FREE, "C01: descriptor of an outstanding chain reused");
                let d = &dev1.desc[cur];
                let e = n0 + s;
                let sh = unsafe { LG[e] };
                let is_in = s < n_in;
                let (wp, wl) = if is_in { (pin[s], la[s]) } else { (pout[s - n_in], lo[s - n_in]) };
                assert!(sh.ptr == wp && sh.len == wl, "C04: share called with a range other than the caller's buffer (or out of order)");
                assert!(sh.dir == if is_in { D2D } else { D2H }, "C04: share direction does not match the buffer's role");
                assert!(sh.ap == q.access_platform && sh.live, "C04: share access_platform flag wrong");
                assert!(d.addr == lg_paddr(e), "C01: descriptor address is not the device address share() returned for this buffer");
                assert!(d.len as usize == wl, "C01: descriptor length differs from the buffer length");
                let mut f = 0u16;
                if s + 1 < n { f |= 1; }
                if !is_in { f |= 2; }
                assert!(d.flags == f, "C01: descriptor flags wrong (NEXT on all but last, WRITE exactly on device-writable, never INDIRECT here)");
                cur = d.next as usize;
            }
            s += 1;
        }
        // frame: descriptors outside the new chain are untouched in device-visible memory
        i = 0;
        while i < N {
            if !visited[i] {
                assert!(dv_eq(&dev1.desc[i], &dev0.desc[i]), "C02: add() wrote a descriptor outside the new chain");
                assert!(dv_eq(&dv(&q.desc_shadow[i]), &p0.shadow[i]), "C01: add() changed the shadow of a descriptor outside the new chain");
            } else {
                g.owner[i] = (K - 1) as u8;
            }
            i += 1;
        }
        assert!(q.num_used as usize == p0.num_used as usize + n && q.last_used_idx == p0.last_used_idx, "C03/C07: descriptor accounting after add");
        // INV is re-established with the new chain recorded in the ghost
        g.head[K - 1] = head;
        g.cnt[K - 1] = n as u16;
        g.nbuf[K - 1] = n as u16;
        g.n_in[K - 1] = n_in as u16;
        g.indirect[K - 1] = false;
        g.eb[K - 1] = n0;
        assert!(inv_direct(&q, &g), "C01/C03/C04/C07: representation invariant broken by add()");
    }
    // recycled free list (not the identity), index wrap, mixed directions, another chain outstanding
    // recycled free list (not the identity), index wrap, another chain outstanding
    kani::cover!(n == 0 || n > N || (r.is_ok() && p0.free_head == (N - 1) as u16 && p0.avail_idx == 0xffff && (N < 4 || n == N || g.cnt[0] > 0)));
    kani::cover!(n == 0 || (r == Err(Error::QueueFull) && (N < 2 || p0.num_used > 0)));
    core::mem::forget(q);
}

// ------------------------------------------------------------------------------------------------
// pop_used() and the read-only queries, direct descriptors
fn pop_direct_body<const N: usize, const NI: usize, const NO: usize>(maxch: usize) { pop_direct_body_h::<N, NI, NO>(maxch, false) }
/// `hostile`: the device may have written anything anywhere it can reach (C07); the caller stays honest
fn pop_direct_body_h<const N: usize, const NI: usize, const NO: usize>(maxch: usize, hostile: bool) {
    let mut b = any_backing::<N>();
    // chain 0 is the one whose buffers the caller holds (unsafe contract of pop_used: same buffers as at add)
    let c0 = NI + NO;
    let n_in = NI;
    let x: [[u8; 4]; MAXC] = kani::any();
    let mut y: [[u8; 4]; MAXC] = kani::any();
    let lx: [usize; MAXC] = [sym_len(), sym_len(), sym_len(), sym_len()];
    let ly: [usize; MAXC] = [sym_len(), sym_len(), sym_len(), sym_len()];
    let ins: [&[u8]; MAXC] = [&x[0][..lx[0]], &x[1][..lx[1]], &x[2][..lx[2]], &x[3][..lx[3]]];
    let [y0, y1, y2, y3] = &mut y;
    let mut outs: [&mut [u8]; MAXC] = [&mut y0[..ly[0]], &mut y1[..ly[1]], &mut y2[..ly[2]], &mut y3[..ly[3]]];
    let bp: [usize; MAXC] = core::array::from_fn(|s| if s < NI { ins[s].as_ptr() as usize } else { outs[(s - NI) % MAXC].as_ptr() as usize });
    let bl: [usize; MAXC] = core::array::from_fn(|s| if s < NI { lx[s] } else { ly[(s - NI) % MAXC] });
    let (mut q, mut g) = pre_direct::<N>(&mut b, Some((NI + NO, NI, bp, bl)), maxch);
    // device contract: m completions pending, the first one names an outstanding chain
    let lu = q.last_used_idx;
    let uidx = b.used.idx.load(Ordering::Relaxed);
    let m = uidx.wrapping_sub(lu);
    let nch = (g.cnt[0] > 0) as u16 + (g.cnt[1] > 0) as u16 + (g.cnt[2] > 0) as u16;
    let slot = (lu as usize) & (N - 1);
    let id_raw = b.used.ring[slot].id;
    let dlen = b.used.ring[slot].len;
    if !hostile {
        kani::assume(m <= nch);
        if m > 0 {
            kani::assume((g.cnt[0] > 0 && id_raw == g.head[0] as u32) || (g.cnt[1] > 0 && id_raw == g.head[1] as u32) || (g.cnt[2] > 0 && id_raw == g.head[2] as u32));
        }
    }
    // the driver looks at the low 16 bits of the id the device wrote
    let id = (id_raw as u16) as u32;
    let token: u16 = if hostile { g.head[0] } else { kani::any() };
    // the caller presents chain 0's buffers, so either its token or a token that is not next
    kani::assume(token == g.head[0] || m == 0 || token as u32 != id);

    let dev0 = dev_snap(&b);
    let p0 = priv_snap(&q);
    let lg0: [Sh; MAXSH] = unsafe { LG };

    assert!(q.can_pop() == (m > 0), "C03: can_pop() must be true exactly when the device has published a completion not yet consumed");
    let pk = q.peek_used();
    assert!(pk == if m > 0 { Some(id as u16) } else { None }, "C03: peek_used() must name the next completion in used-ring order");
    assert!(priv_same(&q, &p0) && dev_same(&b, &dev0), "C03: can_pop/peek_used changed state");

    let r = unsafe { q.pop_used(token, &ins[..NI], &mut outs[..NO]) };

    if m == 0 || token as u32 != id {
        assert!(r == Err(if m == 0 { Error::NotReady } else { Error::WrongToken }), "C03: poll with nothing ready / non-matching token must return NotReady / WrongToken");
        assert!(priv_same(&q, &p0), "C03: failed poll changed driver-private state");
        assert!(dev_same(&b, &dev0), "C03: failed poll changed device-visible memory");
        let mut i = 0;
        while i < 8 {
            assert!(unsafe { LG[i].live == lg0[i].live && LG[i].unshares == lg0[i].unshares }, "C04: failed poll unshared a buffer");
            i += 1;
        }
    } else {
        assert!(r == Ok(dlen), "C03: pop_used must report the byte count the device recorded");
        assert!(q.last_used_idx == lu.wrapping_add(1), "C03: exactly one completion consumed");
        assert!(q.avail_idx == p0.avail_idx, "C02: pop_used moved the available index");
        assert!(q.num_used as usize == p0.num_used as usize - c0, "C03: descriptor count after pop must drop by the chain length");
        assert!(q.available_desc() == N - q.num_used as usize, "C03: available_desc() after pop");
        // ledger: chain 0's buffers unshared exactly once, nothing else touched
        let mut i = 0;
        while i < 8 {
            let mine = i >= g.eb[0] && i < g.eb[0] + c0;
            let now = unsafe { LG[i] };
            if mine {
                assert!(!now.live && now.unshares == 1, "C04: buffer of the consumed chain not unshared exactly once");
            } else {
                assert!(now.live == lg0[i].live && now.unshares == lg0[i].unshares, "C04: buffer of another chain unshared");
            }
            i += 1;
        }
        // device-visible frame: only descriptors of the popped chain and used_event may change
        let dev1 = dev_snap(&b);
        assert!(dev1.avail_idx == dev0.avail_idx && dev1.avail_flags == dev0.avail_flags, "C02: pop_used wrote avail.idx/flags");
        if q.event_idx {
            assert!(dev1.used_event == q.last_used_idx, "C05: used_event not re-armed to the new last_used_idx after a consumed completion");
        } else {
            assert!(dev1.used_event == dev0.used_event, "C05: used_event written although event-idx was not negotiated");
        }
        i = 0;
        while i < N {
            assert!(dev1.ring[i] == dev0.ring[i], "C02: pop_used wrote the available ring");
            if g.owner[i] != 0 {
                assert!(dv_eq(&dev1.desc[i], &dev0.desc[i]), "C02: pop_used wrote a descriptor of another chain or a free descriptor");
            } else {
                g.owner[i] = FREE;
            }
            i += 1;
        }
        g.cnt[0] = 0;
        assert!(inv_direct(&q, &g), "C01/C03/C04: representation invariant broken by pop_used()");
    }
    // index wrap; completion of a multi-descriptor chain while another chain is outstanding and also completed
    // index wrap; where the instantiation leaves room for a second chain: both outstanding and both completed
    kani::cover!(r.is_ok() && lu == 0xffff && (N < 4 || NI + NO == N || (nch == 2 && m == 2)));
    // own chain outstanding but another one completed first (needs room for a second chain)
    kani::cover!(if NI + NO < N && !hostile { r == Err(Error::WrongToken) && token == g.head[0] } else { r.is_ok() || r.is_err() });
    core::mem::forget(q);
}

// ------------------------------------------------------------------------------------------------
// add(), indirect descriptors enabled
fn add_indirect_body<const N: usize, const NI: usize, const NO: usize>(maxch: usize) {
    let mut b = any_backing::<N>();
    lg_init();
    let mut q = mk_queue::<LHal, N>(&mut b, kani::any(), true, kani::any(), kani::any());
    let (mut g, mut tbl) = gen_indirect(&mut q, 0, 0, ([0; MAXC], [0; MAXC]), if maxch < K { maxch } else { K - 1 });
    let dev0 = dev_snap(&b);
    let p0 = priv_snap(&q);
    let n0 = unsafe { LG_N };
    let a: [[u8; 4]; MAXC] = kani::any();
    let mut o: [[u8; 4]; MAXC] = kani::any();
    let la: [usize; MAXC] = [sym_len(), sym_len(), sym_len(), sym_len()];
    let lo: [usize; MAXC] = [sym_len(), sym_len(), sym_len(), sym_len()];
    let ins: [&[u8]; MAXC] = [&a[0][..la[0]], &a[1][..la[1]], &a[2][..la[2]], &a[3][..la[3]]];
    let [o0, o1, o2, o3] = &mut o;
    let mut outs: [&mut [u8]; MAXC] = [&mut o0[..lo[0]], &mut o1[..lo[1]], &mut o2[..lo[2]], &mut o3[..lo[3]]];
    let (n_in, n_out) = (NI, NO);
    let n = n_in + n_out;
    let pin: [usize; MAXC] = core::array::from_fn(|i| ins[i].as_ptr() as usize);
    let pout: [usize; MAXC] = core::array::from_fn(|i| outs[i].as_ptr() as usize);
    let nfree = N - p0.num_used as usize;
    // in indirect mode any submission of up to SIZE buffers fits while one descriptor is free
    let ad = q.available_desc();
    let mut w = 1;
    while w <= MAXC {
        let fits = nfree >= 1 && w <= N;
        assert!((ad >= w) == fits, "C03: available_desc() >= n must hold exactly when a submission of n buffers is not refused");
        w += 1;
    }

    let r = unsafe { q.add(&ins[..NI], &mut outs[..NO]) };

    if n == 0 {
        assert!(r == Err(Error::InvalidParam), "C03: submission without buffers must be refused with InvalidParam");
    } else if nfree == 0 || n > N {
        assert!(r == Err(Error::QueueFull), "C03: submission must be refused with QueueFull when no descriptor is free or it exceeds the queue size");
    }
    if n == 0 || nfree == 0 || n > N {
        assert!(priv_same(&q, &p0), "C03: refused submission changed driver-private state");
        assert!(dev_same(&b, &dev0), "C03: refused submission changed device-visible memory");
        assert!(unsafe { LG_N } == n0, "C04: refused submission shared a buffer");
    } else {
        assert!(r.is_ok(), "C03: submission that fits must be accepted");
        let head = r.unwrap();
        let hd = head as usize;
        assert!(head == p0.free_head, "C01/C07: token is the head of the free list (computed from private state, whatever device-visible memory holds)");
        assert!(g.owner[hd % N] == FREE, "C01: descriptor of an outstanding chain reused");
        let dev1 = dev_snap(&b);
        let slot = (p0.avail_idx as usize) & (N - 1);
        assert!(dev1.avail_idx == p0.avail_idx.wrapping_add(1) && q.avail_idx == dev1.avail_idx, "C01/C07: available index must advance by exactly one from the driver's private copy (device-visible memory is arbitrary here)");
        assert!(dev1.ring[slot] == head, "C01/C07: ring slot designated by the previous (private) available index must hold the new head");
        assert!(dev1.avail_flags == dev0.avail_flags && dev1.used_event == dev0.used_event, "C02: add() wrote avail.flags/used_event");
        let mut i = 0;
        while i < N {
            if i != slot {
                assert!(dev1.ring[i] == dev0.ring[i], "C01: add() wrote a ring slot other than the designated one");
            }
            if i != hd {
                assert!(dv_eq(&dev1.desc[i], &dev0.desc[i]), "C02: add() wrote a descriptor outside the new chain");
                assert!(dv_eq(&dv(&q.desc_shadow[i]), &p0.shadow[i]), "C01: add() changed the shadow of a descriptor outside the new chain");
                assert!(q.indirect_lists[i].is_some() == p0.ind[i], "C01: add() changed the table pointer of another descriptor");
            }
            i += 1;
        }
        let d = &dev1.desc[hd % N];
        if n == 1 {
            // a single buffer is described directly
            assert!(unsafe { LG_N } == n0 + 1, "C04: exactly one share per submitted buffer");
            let sh = unsafe { LG[n0] };
            let is_in = n_in == 1;
            let (wp, wl) = if is_in { (pin[0], la[0]) } else { (pout[0], lo[0]) };
            assert!(sh.ptr == wp && sh.len == wl && sh.dir == if is_in { D2D } else { D2H } && sh.ap == q.access_platform, "C04: share called with a range/direction other than the caller's buffer");
            assert!(d.addr == lg_paddr(n0) && d.len as usize == wl, "C01: descriptor does not describe the caller's buffer");
            assert!(d.flags == if is_in { 0 } else { 2 }, "C01: descriptor flags wrong for a single-buffer chain");
            assert!(q.indirect_lists[hd % N].is_none(), "C01: table recorded for a direct chain");
            tbl[K - 1] = None;
        } else {
            assert!(unsafe { LG_N } == n0 + n + 1, "C04: one share per buffer plus one for the indirect table");
            assert!(d.flags == 4, "C01: the table descriptor must carry INDIRECT and nothing else");
            assert!(d.len as usize == 16 * n, "C01: table descriptor length must be 16 bytes per element");
            let te = n0 + n;
            assert!(d.addr == lg_paddr(te), "C01: table descriptor address is not what share() returned for the table");
            let tp = q.indirect_lists[hd % N];
            assert!(tp.is_some(), "C01: indirect table not recorded");
            let tp = tp.unwrap();
            let tsh = unsafe { LG[te] };
            assert!(tsh.ptr == tp.as_ptr() as *mut u8 as usize && tsh.len == 16 * n && tsh.dir == D2D && tsh.ap == q.access_platform && tsh.live, "C04: indirect table must be shared driver-to-device with its true byte range");
            let tref: &[Descriptor] = unsafe { tp.as_ref() };
            assert!(tref.len() == n, "C01: table length");
            let mut s = 0;
            while s < MAXC {
                if s < n {
                    let e = n0 + s;
                    let sh = unsafe { LG[e] };
                    let is_in = s < n_in;
                    let (wp, wl) = if is_in { (pin[s], la[s]) } else { (pout[s - n_in], lo[s - n_in]) };
                    assert!(sh.ptr == wp && sh.len == wl, "C04: share called with a range other than the caller's buffer (or out of order)");
                    assert!(sh.dir == if is_in { D2D } else { D2H } && sh.ap == q.access_platform && sh.live, "C04: share direction/flag does not match the buffer's role");
                    let td = &tref[s];
                    assert!(td.addr == lg_paddr(e) && td.len as usize == wl, "C01: table element does not describe the caller's buffer");
                    let mut f = 0u16;
                    if s + 1 < n { f |= 1; }
                    if !is_in { f |= 2; }
                    assert!(td.flags.bits() == f, "C01: table element flags wrong");
                    if s + 1 < n {
                        assert!(td.next as usize == s + 1, "C01: table elements must be chained 0..n-1");
                    }
                }
                s += 1;
            }
            tbl[K - 1] = Some(tp);
        }
        assert!(q.num_used == p0.num_used + 1 && q.last_used_idx == p0.last_used_idx, "C03/C07: descriptor accounting after add");
        g.owner[hd % N] = (K - 1) as u8;
        g.head[K - 1] = head;
        g.cnt[K - 1] = 1;
        g.nbuf[K - 1] = n as u16;
        g.n_in[K - 1] = n_in as u16;
        g.indirect[K - 1] = n > 1;
        g.eb[K - 1] = n0;
        assert!(inv_indirect(&q, &g, &tbl), "C01/C03/C04/C07: representation invariant broken by add()");
    }
    kani::cover!(n == 0 || n > N || (r.is_ok() && p0.free_head == (N - 1) as u16 && p0.avail_idx == 0xffff && (N < 4 || g.cnt[0] > 0)));
    // a full queue needs N outstanding chains; the ghost tracks K-1 = 2 before the step, so QueueFull is reachable for N <= 2
    kani::cover!(n == 0 || if N <= 2 { r == Err(Error::QueueFull) } else { r.is_ok() && g.cnt[1] > 0 });
    core::mem::forget(q);
}

// ------------------------------------------------------------------------------------------------
// pop_used(), indirect descriptors enabled; chain 0 has NB0 buffers (NB0 = 1: described directly)
fn pop_indirect_body<const N: usize, const NI: usize, const NO: usize>(maxch: usize) { pop_indirect_body_h::<N, NI, NO>(maxch, false) }
fn pop_indirect_body_h<const N: usize, const NI: usize, const NO: usize>(maxch: usize, hostile: bool) {
    let nb0 = NI + NO;
    let mut b = any_backing::<N>();
    lg_init();
    let mut q = mk_queue::<LHal, N>(&mut b, kani::any(), true, kani::any(), kani::any());
    let n_in = NI;
    let x: [[u8; 4]; MAXC] = kani::any();
    let mut y: [[u8; 4]; MAXC] = kani::any();
    let lx: [usize; MAXC] = [sym_len(), sym_len(), sym_len(), sym_len()];
    let ly: [usize; MAXC] = [sym_len(), sym_len(), sym_len(), sym_len()];
    let ins: [&[u8]; MAXC] = [&x[0][..lx[0]], &x[1][..lx[1]], &x[2][..lx[2]], &x[3][..lx[3]]];
    let [y0, y1, y2, y3] = &mut y;
    let mut outs: [&mut [u8]; MAXC] = [&mut y0[..ly[0]], &mut y1[..ly[1]], &mut y2[..ly[2]], &mut y3[..ly[3]]];
    let bp: [usize; MAXC] = core::array::from_fn(|s| if s < NI { ins[s].as_ptr() as usize } else { outs[(s - NI) % MAXC].as_ptr() as usize });
    let bl: [usize; MAXC] = core::array::from_fn(|s| if s < NI { lx[s] } else { ly[(s - NI) % MAXC] });
    let (mut g, mut tbl) = gen_indirect(&mut q, nb0, NI, (bp, bl), maxch);
    let lu = q.last_used_idx;
    let uidx = b.used.idx.load(Ordering::Relaxed);
    let m = uidx.wrapping_sub(lu);
    let nch = g.cnt[0] + g.cnt[1] + g.cnt[2];
    let slot = (lu as usize) & (N - 1);
    let id_raw = b.used.ring[slot].id;
    let dlen = b.used.ring[slot].len;
    if !hostile {
        kani::assume(m <= nch);
        if m > 0 {
            kani::assume((g.cnt[0] > 0 && id_raw == g.head[0] as u32) || (g.cnt[1] > 0 && id_raw == g.head[1] as u32) || (g.cnt[2] > 0 && id_raw == g.head[2] as u32));
        }
    }
    let id = (id_raw as u16) as u32;
    let token: u16 = if hostile { g.head[0] } else { kani::any() };
    kani::assume(token == g.head[0] || m == 0 || token as u32 != id);
    let dev0 = dev_snap(&b);
    let p0 = priv_snap(&q);
    let lg0: [Sh; MAXSH] = unsafe { LG };
    let lgn = unsafe { LG_N };

    assert!(q.can_pop() == (m > 0), "C03: can_pop() must be true exactly when the device has published a completion not yet consumed");
    assert!(q.peek_used() == if m > 0 { Some(id as u16) } else { None }, "C03: peek_used() must name the next completion in used-ring order");

    let r = unsafe { q.pop_used(token, &ins[..NI], &mut outs[..NO]) };

    if m == 0 || token as u32 != id {
        assert!(r == Err(if m == 0 { Error::NotReady } else { Error::WrongToken }), "C03: poll with nothing ready / non-matching token must return NotReady / WrongToken");
        assert!(priv_same(&q, &p0), "C03: failed poll changed driver-private state");
        assert!(dev_same(&b, &dev0), "C03: failed poll changed device-visible memory");
        let mut i = 0;
        while i < MAXSTEP {
            assert!(unsafe { LG[i].live == lg0[i].live && LG[i].unshares == lg0[i].unshares }, "C04: failed poll unshared a buffer");
            i += 1;
        }
    } else {
        assert!(r == Ok(dlen), "C03: pop_used must report the byte count the device recorded");
        assert!(q.last_used_idx == lu.wrapping_add(1), "C03: exactly one completion consumed");
        assert!(q.avail_idx == p0.avail_idx, "C02: pop_used moved the available index");
        assert!(q.num_used == p0.num_used - 1, "C03: descriptor count after pop must drop by one in indirect mode");
        let mine_n = if nb0 > 1 { nb0 + 1 } else { 1 };
        let mut i = 0;
        while i < MAXSTEP {
            if i < lgn {
                let mine = i >= g.eb[0] && i < g.eb[0] + mine_n;
                let now = unsafe { LG[i] };
                if mine {
                    assert!(!now.live && now.unshares == 1, "C04: buffer or table of the consumed chain not unshared exactly once");
                } else {
                    assert!(now.live == lg0[i].live && now.unshares == lg0[i].unshares, "C04: buffer of another chain unshared");
                }
            }
            i += 1;
        }
        let dev1 = dev_snap(&b);
        assert!(dev1.avail_idx == dev0.avail_idx && dev1.avail_flags == dev0.avail_flags, "C02: pop_used wrote avail.idx/flags");
        if q.event_idx {
            assert!(dev1.used_event == q.last_used_idx, "C05: used_event not re-armed to the new last_used_idx after a consumed completion");
        } else {
            assert!(dev1.used_event == dev0.used_event, "C05: used_event written although event-idx was not negotiated");
        }
        i = 0;
        while i < N {
            assert!(dev1.ring[i] == dev0.ring[i], "C02: pop_used wrote the available ring");
            if g.owner[i] != 0 {
                assert!(dv_eq(&dev1.desc[i], &dev0.desc[i]), "C02: pop_used wrote a descriptor of another chain or a free descriptor");
            } else {
                g.owner[i] = FREE;
            }
            i += 1;
        }
        g.cnt[0] = 0;
        tbl[0] = None;
        assert!(inv_indirect(&q, &g, &tbl), "C01/C03/C04: representation invariant broken by pop_used()");
    }
    kani::cover!(r.is_ok() && lu == 0xffff && (N < 4 || (nch == 2 && m == 2)));
    kani::cover!(if N >= 2 && !hostile { r == Err(Error::WrongToken) && token == g.head[0] } else { r.is_ok() || r.is_err() });
    core::mem::forget(q);
}

// ------------------------------------------------------------------------------------------------
// The constructive generators only produce states inside INV (their completeness is argued in q_env.rs).
// @harness props=C01,C03 tier=quick timeout=900
#[kani::proof]
#[kani::unwind(10)]
fn gen_direct_in_inv_4() {
    let mut b = zero_backing::<4>();
    let (q, g) = pre_direct::<4>(&mut b, None, 3);
    assert!(inv_direct(&q, &g), "harness: generated pre-state must satisfy INV");
    kani::cover!(g.cnt[0] == 2 && g.cnt[2] == 1 && q.free_head == 0);
    core::mem::forget(q);
}

// @harness props=C01,C03 tier=quick timeout=900
#[kani::proof]
#[kani::unwind(18)]
fn gen_indirect_in_inv_4() {
    let mut b = zero_backing::<4>();
    lg_init();
    let mut q = mk_queue::<LHal, 4>(&mut b, kani::any(), true, kani::any(), kani::any());
    let (g, tbl) = gen_indirect(&mut q, 2, 1, ([kani::any(), kani::any(), kani::any(), kani::any()], [1, 2, 3, 4]), 3);
    assert!(inv_indirect(&q, &g, &tbl), "harness: generated pre-state must satisfy INV");
    kani::cover!(g.cnt[2] == 1 && g.nbuf[1] == 1 && g.nbuf[2] == 3);
    core::mem::forget(q);
}

// ------------------------------------------------------------------------------------------------
// instantiations: SIZE, number of device-readable and device-writable buffers are compile-time parameters
// @harness props=C01,C02,C03,C04,C07 tier=quick timeout=900
#[kani::proof]
#[kani::unwind(10)]
fn step_add_direct_4_i1o2() { add_direct_body::<4, 1, 2>(3) }

// @harness props=C01,C02,C03,C04 tier=quick timeout=900
#[kani::proof]
#[kani::unwind(10)]
fn step_add_direct_4_i1o0() { add_direct_body::<4, 1, 0>(3) }

// @harness props=C01,C02,C03,C04 tier=thorough timeout=900
#[kani::proof]
#[kani::unwind(10)]
fn step_add_direct_4_i0o0() { add_direct_body::<4, 0, 0>(3) }

// @harness props=C01,C02,C03,C04 tier=quick timeout=900
#[kani::proof]
#[kani::unwind(10)]
fn step_add_direct_4_i2o2() { add_direct_body::<4, 2, 2>(3) }

// @harness props=C01,C02,C03,C04 tier=thorough timeout=3600
#[kani::proof]
#[kani::unwind(10)]
fn step_add_direct_4_i0o1() { add_direct_body::<4, 0, 1>(3) }

// @harness props=C01,C02,C03,C04 tier=thorough timeout=3600
#[kani::proof]
#[kani::unwind(10)]
fn step_add_direct_4_i2o0() { add_direct_body::<4, 2, 0>(3) }

// @harness props=C01,C02,C03,C04 tier=thorough timeout=3600
#[kani::proof]
#[kani::unwind(10)]
fn step_add_direct_4_i0o2() { add_direct_body::<4, 0, 2>(3) }

// @harness props=C01,C02,C03,C04 tier=thorough timeout=3600
#[kani::proof]
#[kani::unwind(10)]
fn step_add_direct_4_i2o1() { add_direct_body::<4, 2, 1>(3) }

// @harness props=C01,C02,C03,C04 tier=thorough timeout=3600
#[kani::proof]
#[kani::unwind(10)]
fn step_add_direct_4_i1o1() { add_direct_body::<4, 1, 1>(3) }

// @harness props=C01,C02,C03,C04 tier=thorough timeout=3600
#[kani::proof]
#[kani::unwind(10)]
fn step_add_direct_4_i3o1() { add_direct_body::<4, 3, 1>(3) }

// @harness props=C01,C02,C03,C04 tier=thorough timeout=3600
#[kani::proof]
#[kani::unwind(10)]
fn step_add_direct_4_i1o3() { add_direct_body::<4, 1, 3>(3) }

// @harness props=C01,C02,C03,C04 tier=thorough timeout=3600
#[kani::proof]
#[kani::unwind(10)]
fn step_add_direct_4_i0o4() { add_direct_body::<4, 0, 4>(3) }

// @harness props=C01,C02,C03,C04 tier=thorough timeout=3600
#[kani::proof]
#[kani::unwind(10)]
fn step_add_direct_4_i4o0() { add_direct_body::<4, 4, 0>(3) }

// @harness props=C01,C02,C03,C04 tier=thorough timeout=3600
#[kani::proof]
#[kani::unwind(10)]
fn step_add_direct_2_i1o1() { add_direct_body::<2, 1, 1>(3) }

// @harness props=C01,C02,C03,C04 tier=thorough timeout=3600
#[kani::proof]
#[kani::unwind(10)]
fn step_add_direct_2_i1o0() { add_direct_body::<2, 1, 0>(3) }

// @harness props=C01,C02,C03,C04 tier=thorough timeout=3600
#[kani::proof]
#[kani::unwind(10)]
fn step_add_direct_2_i0o1() { add_direct_body::<2, 0, 1>(3) }

// @harness props=C01,C02,C03,C04 tier=thorough timeout=3600
#[kani::proof]
#[kani::unwind(10)]
fn step_add_direct_2_i2o1() { add_direct_body::<2, 2, 1>(3) }

// @harness props=C01,C02,C03,C04 tier=thorough timeout=3600
#[kani::proof]
#[kani::unwind(10)]
fn step_add_direct_1_i1o0() { add_direct_body::<1, 1, 0>(3) }

// @harness props=C01,C02,C03,C04 tier=thorough timeout=3600
#[kani::proof]
#[kani::unwind(10)]
fn step_add_direct_1_i0o1() { add_direct_body::<1, 0, 1>(3) }

// @harness props=C01,C02,C03,C04 tier=thorough timeout=3600
#[kani::proof]
#[kani::unwind(10)]
fn step_add_direct_1_i1o1() { add_direct_body::<1, 1, 1>(3) }

// @harness props=C01,C02,C03,C04 tier=thorough timeout=3600
#[kani::proof]
#[kani::unwind(10)]
fn step_add_direct_8_i1o2() { add_direct_body::<8, 1, 2>(3) }

// @harness props=C01,C02,C03,C04 tier=thorough timeout=3600
#[kani::proof]
#[kani::unwind(10)]
fn step_add_direct_8_i2o2() { add_direct_body::<8, 2, 2>(3) }

// @harness props=C01,C02,C03,C04,C07 tier=quick timeout=900
#[kani::proof]
#[kani::unwind(10)]
fn step_add_indirect_4_i1o2() { add_indirect_body::<4, 1, 2>(3) }

// @harness props=C01,C02,C03,C04 tier=quick timeout=900
#[kani::proof]
#[kani::unwind(10)]
fn step_add_indirect_4_i1o0() { add_indirect_body::<4, 1, 0>(3) }

// @harness props=C01,C02,C03,C04 tier=thorough timeout=3600
#[kani::proof]
#[kani::unwind(10)]
fn step_add_indirect_4_i0o1() { add_indirect_body::<4, 0, 1>(3) }

// @harness props=C01,C02,C03,C04 tier=thorough timeout=3600
#[kani::proof]
#[kani::unwind(10)]
fn step_add_indirect_4_i1o1() { add_indirect_body::<4, 1, 1>(3) }

// @harness props=C01,C02,C03,C04 tier=thorough timeout=3600
#[kani::proof]
#[kani::unwind(10)]
fn step_add_indirect_4_i2o2() { add_indirect_body::<4, 2, 2>(3) }

// @harness props=C01,C02,C03,C04 tier=thorough timeout=3600
#[kani::proof]
#[kani::unwind(10)]
fn step_add_indirect_4_i0o3() { add_indirect_body::<4, 0, 3>(3) }

// @harness props=C01,C02,C03,C04 tier=thorough timeout=3600
#[kani::proof]
#[kani::unwind(10)]
fn step_add_indirect_4_i3o0() { add_indirect_body::<4, 3, 0>(3) }

// @harness props=C01,C02,C03,C04 tier=thorough timeout=3600
#[kani::proof]
#[kani::unwind(10)]
fn step_add_indirect_4_i0o0() { add_indirect_body::<4, 0, 0>(3) }

// @harness props=C01,C02,C03,C04 tier=quick timeout=900
#[kani::proof]
#[kani::unwind(10)]
fn step_add_indirect_2_i1o1() { add_indirect_body::<2, 1, 1>(3) }

// @harness props=C01,C02,C03,C04 tier=thorough timeout=3600
#[kani::proof]
#[kani::unwind(10)]
fn step_add_indirect_2_i1o2() { add_indirect_body::<2, 1, 2>(3) }

// @harness props=C01,C02,C03,C04 tier=thorough timeout=3600
#[kani::proof]
#[kani::unwind(10)]
fn step_add_indirect_2_i1o0() { add_indirect_body::<2, 1, 0>(3) }

// @harness props=C01,C02,C03,C04 tier=thorough timeout=3600
#[kani::proof]
#[kani::unwind(10)]
fn step_add_indirect_1_i1o1() { add_indirect_body::<1, 1, 1>(3) }

// @harness props=C01,C02,C03,C04 tier=thorough timeout=3600
#[kani::proof]
#[kani::unwind(10)]
fn step_add_indirect_1_i1o0() { add_indirect_body::<1, 1, 0>(3) }

// @harness props=C01,C02,C03,C04 tier=thorough timeout=3600
#[kani::proof]
#[kani::unwind(10)]
fn step_add_indirect_8_i1o2() { add_indirect_body::<8, 1, 2>(3) }

// @harness props=C03,C02,C04,C05 tier=quick timeout=900
#[kani::proof]
#[kani::unwind(10)]
fn step_pop_direct_4_i1o2() { pop_direct_body::<4, 1, 2>(3) }

// @harness props=C03,C02,C04,C05 tier=quick timeout=900
#[kani::proof]
#[kani::unwind(10)]
fn step_pop_direct_4_i1o0() { pop_direct_body::<4, 1, 0>(3) }

// @harness props=C03,C02,C04,C05 tier=thorough timeout=3600
#[kani::proof]
#[kani::unwind(10)]
fn step_pop_direct_4_i0o1() { pop_direct_body::<4, 0, 1>(3) }

// @harness props=C03,C02,C04,C05 tier=thorough timeout=3600
#[kani::proof]
#[kani::unwind(10)]
fn step_pop_direct_4_i1o1() { pop_direct_body::<4, 1, 1>(3) }

// @harness props=C03,C02,C04,C05 tier=thorough timeout=3600
#[kani::proof]
#[kani::unwind(10)]
fn step_pop_direct_4_i2o1() { pop_direct_body::<4, 2, 1>(3) }

// @harness props=C03,C02,C04,C05 tier=thorough timeout=3600
#[kani::proof]
#[kani::unwind(10)]
fn step_pop_direct_4_i2o2() { pop_direct_body::<4, 2, 2>(3) }

// @harness props=C03,C02,C04,C05 tier=thorough timeout=3600
#[kani::proof]
#[kani::unwind(10)]
fn step_pop_direct_4_i0o3() { pop_direct_body::<4, 0, 3>(3) }

// @harness props=C03,C02,C04,C05 tier=thorough timeout=3600
#[kani::proof]
#[kani::unwind(10)]
fn step_pop_direct_4_i3o0() { pop_direct_body::<4, 3, 0>(3) }

// @harness props=C03,C02,C04,C05 tier=thorough timeout=3600
#[kani::proof]
#[kani::unwind(10)]
fn step_pop_direct_2_i1o1() { pop_direct_body::<2, 1, 1>(3) }

// @harness props=C03,C02,C04,C05 tier=thorough timeout=3600
#[kani::proof]
#[kani::unwind(10)]
fn step_pop_direct_2_i1o0() { pop_direct_body::<2, 1, 0>(3) }

// @harness props=C03,C02,C04,C05 tier=thorough timeout=3600
#[kani::proof]
#[kani::unwind(10)]
fn step_pop_direct_2_i0o1() { pop_direct_body::<2, 0, 1>(3) }

// @harness props=C03,C02,C04,C05 tier=thorough timeout=3600
#[kani::proof]
#[kani::unwind(10)]
fn step_pop_direct_1_i1o0() { pop_direct_body::<1, 1, 0>(3) }

// @harness props=C03,C02,C04,C05 tier=thorough timeout=3600
#[kani::proof]
#[kani::unwind(10)]
fn step_pop_direct_1_i0o1() { pop_direct_body::<1, 0, 1>(3) }

// @harness props=C03,C02,C04,C05 tier=thorough timeout=3600
#[kani::proof]
#[kani::unwind(10)]
fn step_pop_direct_8_i1o2() { pop_direct_body::<8, 1, 2>(3) }

// @harness props=C03,C02,C04,C05 tier=quick timeout=900
#[kani::proof]
#[kani::unwind(18)]
fn step_pop_indirect_4_i1o1() { pop_indirect_body::<4, 1, 1>(3) }

// inputs-only indirect chains: the last table entry carries neither NEXT nor WRITE, so anything that derives a
// buffer's role from the stored flags instead of from its position confuses exactly this shape (seed s21)
// (quick for C04 only, to keep the other quick tiers inside their time budget; i3o0 serves all four in thorough)
// @harness props=C04 tier=quick timeout=900
#[kani::proof]
#[kani::unwind(18)]
fn step_pop_indirect_4_i2o0() { pop_indirect_body::<4, 2, 0>(3) }

// @harness props=C03,C02,C04,C05 tier=thorough timeout=3600
#[kani::proof]
#[kani::unwind(18)]
fn step_pop_indirect_4_i3o0() { pop_indirect_body::<4, 3, 0>(3) }

// @harness props=C03,C02,C04,C05 tier=thorough timeout=3600
#[kani::proof]
#[kani::unwind(18)]
fn step_pop_indirect_4_i1o0() { pop_indirect_body::<4, 1, 0>(3) }

// @harness props=C03,C02,C04,C05 tier=thorough timeout=3600
#[kani::proof]
#[kani::unwind(18)]
fn step_pop_indirect_4_i0o1() { pop_indirect_body::<4, 0, 1>(3) }

// @harness props=C03,C02,C04,C05 tier=thorough timeout=3600
#[kani::proof]
#[kani::unwind(18)]
fn step_pop_indirect_4_i1o2() { pop_indirect_body::<4, 1, 2>(3) }

// @harness props=C03,C02,C04,C05 tier=thorough timeout=3600
#[kani::proof]
#[kani::unwind(18)]
fn step_pop_indirect_4_i2o2() { pop_indirect_body::<4, 2, 2>(3) }

// @harness props=C03,C02,C04,C05 tier=thorough timeout=3600
#[kani::proof]
#[kani::unwind(18)]
fn step_pop_indirect_4_i0o2() { pop_indirect_body::<4, 0, 2>(3) }

// @harness props=C03,C02,C04,C05 tier=thorough timeout=3600
#[kani::proof]
#[kani::unwind(18)]
fn step_pop_indirect_2_i1o1() { pop_indirect_body::<2, 1, 1>(3) }

// @harness props=C03,C02,C04,C05 tier=thorough timeout=3600
#[kani::proof]
#[kani::unwind(18)]
fn step_pop_indirect_2_i1o2() { pop_indirect_body::<2, 1, 2>(3) }

// @harness props=C03,C02,C04,C05 tier=thorough timeout=3600
#[kani::proof]
#[kani::unwind(18)]
fn step_pop_indirect_1_i1o1() { pop_indirect_body::<1, 1, 1>(3) }

// @harness props=C03,C02,C04,C05 tier=thorough timeout=3600
#[kani::proof]
#[kani::unwind(18)]
fn step_pop_indirect_1_i1o0() { pop_indirect_body::<1, 1, 0>(3) }

// @harness props=C03,C02,C04,C05 tier=thorough timeout=3600
#[kani::proof]
#[kani::unwind(18)]
fn step_pop_indirect_8_i1o1() { pop_indirect_body::<8, 1, 1>(3) }


// hostile device (C07): everything device-reachable is arbitrary - descriptor table, available ring, used ring ids,
// lengths and index jumps; the honest caller polls for its own chain.  Outcome: NotReady / WrongToken with
// untouched state, or success with exactly the C03 post-state; no memory-safety check may fail (panics are clean).
// @harness props=C07 tier=quick timeout=1800 panic=clean
#[kani::proof]
#[kani::unwind(10)]
fn c07_pop_hostile_direct_4_i1o2() { pop_direct_body_h::<4, 1, 2>(3, true) }

// @harness props=C07 tier=thorough timeout=3600 panic=clean
#[kani::proof]
#[kani::unwind(10)]
fn c07_pop_hostile_direct_4_i1o0() { pop_direct_body_h::<4, 1, 0>(3, true) }

// @harness props=C07 tier=quick timeout=1800 panic=clean
#[kani::proof]
#[kani::unwind(18)]
fn c07_pop_hostile_indirect_4_i1o1() { pop_indirect_body_h::<4, 1, 1>(3, true) }
