// @mount src/device/virtio_9p.rs
// @needs q_env
//
// 9P driver: request size check, mount tag (C20, C13), handshake (C08), teardown (C09).
// Functions encoded: VirtIO9p::{new, request, mount_tag}, read_mount_tag.
#![allow(unused, unsafe_op_in_unsafe_fn, clippy::all, static_mut_refs)]
use super::*;
use crate::queue::__verif_q_env::*;
use crate::transport::DeviceType;

static mut D_REQ_LEN: u32 = 0;
static mut D_REQ0: u8 = 0;
static mut D_RESP: [u8; 8] = [0; 8];
static mut D_USED: u32 = 0;
static mut D_RESP_LEN: u32 = 0;
struct P9Dev;
impl DevModel for P9Dev {
    fn on_notify(q: u16) {
        assert!(q == 0, "C20: notification for a queue the 9P device does not have");
        unsafe {
            if let Some(head) = dev_take::<QUEUE_SIZE>(0) {
                let c = dev_chain::<QUEUE_SIZE>(0, head, false);
                assert!(c.n == 2 && !c.write[0] && c.write[1], "C20: a 9P request is one readable request and one writable response");
                D_REQ_LEN = c.len[0];
                D_RESP_LEN = c.len[1];
                D_REQ0 = dev_rd(&c, 0, 0);
                let mut i = 0;
                while i < 8 {
                    if (i as u32) < c.len[1] { dev_wr(&c, 1, i, D_RESP[i]); }
                    i += 1;
                }
                dev_complete::<QUEUE_SIZE>(0, head, D_USED);
            }
        }
    }
}

fn mk_direct() -> VirtIO9p<THal<QUEUE_SIZE>, MT<P9Dev>> {
    lg_init_concrete();
    let mut t = mt::<P9Dev>(DeviceType::_9P, 0);
    unsafe { DRIVER_OK_SEEN = true; }
    let queue = VirtQueue::new(&mut t, QUEUE, false, kani::any(), false).unwrap();
    VirtIO9p { transport: t, queue, mount_tag: String::new() }
}

// request path (driver state built directly)
// @harness props=C20 tier=quick timeout=1800
#[kani::proof]
#[kani::unwind(20)]
fn c20_9p_request() {
    let mut p9 = mk_direct();
    let req: [u8; 8] = kani::any();
    let mut resp = [0u8; 8];
    let (nreq, nresp): (usize, usize) = (kani::any(), kani::any());
    kani::assume(nreq <= 8 && nresp <= 8);
    unsafe { D_RESP = kani::any(); D_USED = kani::any(); }
    let r = p9.request(&req[..nreq], &mut resp[..nresp]);
    unsafe {
        if nreq == 0 || nresp < 7 {
            assert!(r == Err(Error::InvalidParam) && D_REQ_LEN == 0, "C20: empty request / too small response buffer must be refused without sending");
        } else {
            assert!(D_REQ_LEN as usize == nreq && D_RESP_LEN as usize == nresp && D_REQ0 == req[0], "C20: the 9P request must be the caller's bytes");
            let size = u32::from_le_bytes([D_RESP[0], D_RESP[1], D_RESP[2], D_RESP[3]]);
            if size == D_USED {
                assert!(r == Ok(D_USED), "C20: response length must be what the device reported");
            } else {
                assert!(r == Err(Error::IoError), "C20: a response whose size field differs from the used length is an error");
            }
        }
    }
    core::mem::forget(p9);
    kani::cover!(r.is_ok());
    kani::cover!(r == Err(Error::IoError));
    kani::cover!(nresp == 6);
}

// construction: handshake, mount tag of a fixed length with symbolic ASCII bytes, DMA failure, teardown
fn new_body(tl: u16) {
    lg_init_concrete();
    let offered: u64 = kani::any();
    kani::assume(offered & (1 << 28) == 0);
    let mut t = mt::<P9Dev>(DeviceType::_9P, offered);
    let tag: [u8; 3] = kani::any();
    kani::assume(tag[0] < 0x80 && tag[1] < 0x80 && tag[2] < 0x80);
    t.cfg[..2].copy_from_slice(&tl.to_le_bytes());
    t.cfg[2..5].copy_from_slice(&tag);
    let k: usize = kani::any();
    kani::assume(k <= 3);
    unsafe { DMA_FAIL_AT = k; }
    match VirtIO9p::<THal<QUEUE_SIZE>, MT<P9Dev>>::new(t) {
        Err(e) => {
            assert!(k == 1 || k == 2, "C09: construction failed although no allocation failed");
            check_failed_new(e);
        }
        Ok(p9) => {
            assert!(k == 0 || k == 3, "C09: construction succeeded although an allocation failed");
            let _w = check_handshake(offered, SUPPORTED_FEATURES.bits(), 1);
            let mt_ = p9.mount_tag().as_bytes();
            assert!(mt_.len() == tl as usize && mt_[0] == tag[0] && (tl < 2 || mt_[1] == tag[1]) && (tl < 3 || mt_[2] == tag[2]), "C20: mount tag must equal what the device reported");
            drop(p9);
            check_teardown(1, 2);
        }
    }
    kani::cover!(k == 0 && tag[0] == b'x');
    kani::cover!(k == 2);
}

// @harness props=C20,C08,C09 tier=thorough timeout=2400
#[kani::proof]
#[kani::unwind(50)]
fn c20_9p_new_tag2() { new_body(2) }
