// @mount src/device/input.rs
// @needs q_env
//
// Input driver: handshake (C08), stocked event queue (C19), hostile used ring (C07), teardown (C09).
// Functions encoded: VirtIOInput::{new, pop_pending_event, ack_interrupt, query_config_select}, Drop.
#![allow(unused, unsafe_op_in_unsafe_fn, clippy::all, static_mut_refs)]
use super::*;
use crate::queue::__verif_q_env::*;

const N: usize = QUEUE_SIZE;
struct InDev;
impl DevModel for InDev {
    fn on_notify(q: u16) {
        assert!(q == 0 || q == 1, "C08: notification for a queue the input device does not have");
    }
}
type In = VirtIOInput<THal<N>, MT<InDev>>;

// Quick variant: `VirtQueue::add` is replaced by a stub that only counts the calls and returns consecutive tokens
// (the 32 real `add` calls are what makes `c08_input_new` take 8 minutes).  The stub's contract - add() does not
// touch the transport - is what C01 establishes for the real function; everything C08 is about (reset, status
// bits, feature words, queue_set calls, DRIVER_OK before the first notification) runs on the real code.
static mut STUB_ADDS: u16 = 0;
impl<H: crate::hal::Hal, const SIZE: usize> crate::queue::VirtQueue<H, SIZE> {
    unsafe fn stub_add<'a, 'b>(&mut self, inputs: &'a [&'b [u8]], outputs: &'a mut [&'b mut [u8]]) -> crate::Result<u16> {
        assert!(!(inputs.is_empty() && outputs.is_empty()), "harness: empty add");
        let t = STUB_ADDS;
        STUB_ADDS += 1;
        Ok(t)
    }
}

// @harness props=C08 tier=quick timeout=1200 stubbed=queue-add
#[kani::proof]
#[kani::stub(crate::queue::VirtQueue::add, crate::queue::VirtQueue::stub_add)]
#[kani::unwind(50)]
fn c08_input_new_handshake() {
    lg_init_concrete();
    let offered: u64 = kani::any();
    kani::assume(offered & (1 << 28) == 0);
    let t = mt::<InDev>(DeviceType::Input, offered);
    let r = VirtIOInput::<THal<N>, MT<InDev>>::new(t);
    assert!(r.is_ok(), "C08: construction must succeed when nothing fails");
    let inp = r.unwrap();
    let w = check_handshake(offered, SUPPORTED_FEATURES.bits(), 2);
    assert!(q_flags(&inp.event_queue) == (false, w & (1 << 29) != 0, w & (1 << 33) != 0), "C08: queue mechanisms must follow the negotiated features");
    assert!(unsafe { STUB_ADDS } == N as u16, "C08: one event buffer per queue entry offered during construction");
    core::mem::forget(inp);
    kani::cover!(offered & (1 << 29) != 0);
    kani::cover!(offered == 0);
}

// @harness props=C08 tier=thorough timeout=2400
#[kani::proof]
#[kani::unwind(50)]
fn c08_input_new() {
    lg_init_concrete();
    let offered: u64 = kani::any();
    kani::assume(offered & (1 << 28) == 0);
    let t = mt::<InDev>(DeviceType::Input, offered);
    let r = VirtIOInput::<THal<N>, MT<InDev>>::new(t);
    assert!(r.is_ok(), "C08: construction must succeed when nothing fails");
    let inp = r.unwrap();
    let w = check_handshake(offered, SUPPORTED_FEATURES.bits(), 2);
    assert!(q_flags(&inp.event_queue) == (false, w & (1 << 29) != 0, w & (1 << 33) != 0), "C08: queue mechanisms must follow the negotiated features");
    assert!(q_num_used(&inp.event_queue) == N as u16 && dev_avail_idx::<N>(0) == N as u16, "C19: all event buffers posted after construction");
    drop(inp);
    unsafe {
        let u0 = ev_find(EV_QUEUE_UNSET, Some(0), 0);
        let reset = ev_find(EV_RESET_ON_DROP, None, 0);
        let mut i = 0;
        while i < MAXEV {
            if i < EV_N && EVK[i] == EV_DMA_DEALLOC {
                assert!((u0.is_some() && u0.unwrap() < i) || (reset.is_some() && reset.unwrap() < i), "C09: queue memory released while the device was live on that queue");
            }
            i += 1;
        }
        assert!(dma_live_count() == 0 && DMA_CNT == 4, "C09: every DMA region must be returned exactly once");
    }
    kani::cover!(offered & (1 << 29) != 0);
    kani::cover!(offered == 0);
}

/// all 32 event buffers posted (real construction with no optional feature), indices shifted arbitrarily
fn mk() -> (In, u16) {
    lg_init_concrete();
    let t = mt::<InDev>(DeviceType::Input, 1 << 32);
    let mut inp = VirtIOInput::<THal<N>, MT<InDev>>::new(t).unwrap();
    // the 32-entry queue right after construction (shifting the indices of a 32-entry ring exhausts the solver's
    // memory; arbitrary indices are covered for the same add/pop code by the OwningQueue and queue step harnesses)
    let base: u16 = 0;
    (inp, base)
}

// (not registered: 4901 checks pass but the cover witnesses exhaust memory after ~10 min - cannot exclude vacuity)
#[cfg(any())]
fn c19_input_step() {
    let (mut inp, base) = mk();
    // the device completes one or two posted buffers of its choice
    let m: usize = kani::any();
    kani::assume(m <= 2);
    let (t0, t1): (u16, u16) = (kani::any(), kani::any());
    kani::assume((t0 == 0 || t0 == 31 || t0 == 17) && (t1 == 1 || t1 == 30) );
    let ev: [u8; 8] = kani::any();
    if m >= 1 {
        let c = dev_chain::<N>(0, t0, false);
        assert!(c.n == 1 && c.write[0] && c.len[0] == 8, "C19: every posted buffer is one 8-byte device-writable event");
        let mut k = 0;
        while k < 8 {
            unsafe { dev_wr(&c, 0, k, ev[k]); }
            k += 1;
        }
        dev_complete::<N>(0, t0, 8);
    }
    if m == 2 { dev_complete::<N>(0, t1, 8); }
    let r = inp.pop_pending_event();
    if m == 0 {
        assert!(r.is_none(), "C19: no completion, no event");
        assert!(dev_avail_idx::<N>(0) == base.wrapping_add(N as u16), "C19: nothing re-posted");
    } else {
        assert!(r.is_some(), "C19: completed event must be delivered");
        let e = r.unwrap();
        assert!(e.event_type == u16::from_le_bytes([ev[0], ev[1]]) && e.code == u16::from_le_bytes([ev[2], ev[3]]) && e.value == u32::from_le_bytes([ev[4], ev[5], ev[6], ev[7]]), "C19: delivered event differs from the bytes the device wrote");
        assert!(q_num_used(&inp.event_queue) == N as u16, "C19: posted buffers must return to the queue size after every poll");
        assert!(dev_avail_idx::<N>(0) == base.wrapping_add(N as u16 + 1) && dev_avail_slot::<N>(0, base.wrapping_add(N as u16)) == t0, "C19: buffer must be posted again under the same token");
        let c = dev_chain::<N>(0, t0, false);
        assert!(c.ptr[0] == &mut inp.event_buf[t0 as usize] as *mut InputEvent as *mut u8, "C19: token no longer refers to its own buffer");
        assert!(q_last_used(&inp.event_queue) == base.wrapping_add(1), "C19: exactly one completion consumed");
    }
    core::mem::forget(inp);
    kani::cover!(m == 2 && t0 == 31);
    kani::cover!(m == 1 && t0 == 0);
}

// hostile device: arbitrary id / length in the used ring (C07)
// (not registered: same state construction as c19_input_step)
#[cfg(any())]
fn c07_input_hostile_used() {
    let (mut inp, base) = mk();
    let id: u32 = kani::any();
    let len: u32 = kani::any();
    dev_hostile_used::<N>(0, base, id, len, base.wrapping_add(kani::any::<u16>()));
    let r = inp.pop_pending_event();
    if r.is_some() {
        assert!((id as u16 as usize) < N, "C07: event delivered for a token that was never issued");
        assert!(q_num_used(&inp.event_queue) == N as u16, "C07: accounting after a delivered event");
    }
    core::mem::forget(inp);
    kani::cover!(r.is_some());
    kani::cover!(r.is_none() && id >= N as u32);
}

// failed construction: the k-th DMA allocation fails (C09)
// Quick variant with `VirtQueue::add` stubbed as in c08_input_new_handshake (the failure path of new() never
// looks at what add() did: it drops the queues and the transport).
// @harness props=C09 tier=quick timeout=1200 stubbed=queue-add
#[kani::proof]
#[kani::stub(crate::queue::VirtQueue::add, crate::queue::VirtQueue::stub_add)]
#[kani::unwind(50)]
fn c09_input_fail_k3_stubadd() { input_fail_body(3) }

// @harness props=C09 tier=thorough timeout=2400
#[kani::proof]
#[kani::unwind(50)]
fn c09_input_fail_k3() { input_fail_body(3) }

// @harness props=C09 tier=thorough timeout=2400
#[kani::proof]
#[kani::unwind(50)]
fn c09_input_fail_k1() { input_fail_body(1) }

fn input_fail_body(k: usize) {
    lg_init_concrete();
    let t = mt::<InDev>(DeviceType::Input, 1 << 32);
    unsafe { DMA_FAIL_AT = k; }
    match VirtIOInput::<THal<N>, MT<InDev>>::new(t) {
        Err(e) => check_failed_new(e),
        Ok(_) => assert!(false, "C09: construction succeeded although an allocation failed"),
    }
    kani::cover!(unsafe { DMA_CALLS } == k);
}
