// @mount src/device/blk.rs
// @needs q_env
//
// Block driver against a reference block device (C14), its init handshake (C08), teardown and failed
// construction (C09).  Functions encoded: VirtIOBlk::{new, read_blocks, write_blocks, flush, device_id,
// read_blocks_nb, write_blocks_nb, complete_read_blocks, complete_write_blocks, peek_used, capacity,
// readonly, request*}, From<RespStatus> for Result, Drop, Transport::{begin_init, finish_init},
// VirtQueue::{new, add, pop_used, add_notify_wait_pop}.
#![allow(unused, unsafe_op_in_unsafe_fn, clippy::all, static_mut_refs)]
use super::*;
use crate::queue::__verif_q_env::*;

const N: usize = 16;
static mut D_IND: bool = false;
static mut D_STATUS: u8 = 0;
static mut D_K: usize = 0;
static mut D_BYTE: u8 = 0;
static mut D_SEEN_TYPE: u32 = 0xffff_ffff;
static mut D_SEEN_RESERVED: u32 = 0xffff_ffff;
static mut D_SEEN_SECTOR: u64 = 0;
static mut D_SEEN_BYTE: u8 = 0;
static mut D_DATA_LEN: u32 = 0;
static mut D_SERVED: u32 = 0;
static mut D_AUTO: bool = true;

/// decode one request chain against the specification's layout and perform it
unsafe fn serve(head: u16) -> u32 {
    let c = dev_chain::<N>(0, head, D_IND);
    assert!(c.n == 2 || c.n == 3, "C14: a block request has a header, optional data and a status part");
    assert!(!c.write[0] && c.len[0] == 16, "C14: first part must be the 16-byte device-readable request header");
    let last = c.n - 1;
    assert!(c.write[last] && c.len[last] == 1, "C14: final part must be a one-byte device-writable status");
    let ty = dev_rd_u32(&c, 0, 0);
    D_SEEN_TYPE = ty;
    D_SEEN_RESERVED = dev_rd_u32(&c, 0, 4);
    D_SEEN_SECTOR = dev_rd_u64(&c, 0, 8);
    let mut written = 1u32;
    match ty {
        0 | 8 => {
            assert!(c.n == 3 && c.write[1], "C14: data part of a read / get-id must be device-writable");
            D_DATA_LEN = c.len[1];
            if D_K < c.len[1] as usize { dev_wr(&c, 1, D_K, D_BYTE); }
            written += c.len[1];
        }
        1 => {
            assert!(c.n == 3 && !c.write[1], "C14: data part of a write must be device-readable");
            D_DATA_LEN = c.len[1];
            if D_K < c.len[1] as usize { D_SEEN_BYTE = dev_rd(&c, 1, D_K); }
        }
        4 => assert!(c.n == 2, "C14: flush carries no data"),
        _ => assert!(false, "C14: unknown request type emitted"),
    }
    dev_wr(&c, last, 0, D_STATUS);
    D_SERVED += 1;
    written
}

struct BlkDev;
impl DevModel for BlkDev {
    fn on_notify(q: u16) {
        assert!(q == 0, "C14: notification for a queue the block device does not have");
        unsafe {
            if !D_AUTO { return; }
            if let Some(head) = dev_take::<N>(0) {
                let w = serve(head);
                dev_complete::<N>(0, head, w);
            }
        }
    }
}

fn expect(status: u8) -> Result {
    match status {
        0 => Ok(()),
        1 => Err(Error::IoError),
        2 => Err(Error::Unsupported),
        3 => Err(Error::NotReady),
        _ => Err(Error::IoError),
    }
}

fn mk(ind: bool) -> (VirtIOBlk<THal<N>, MT<BlkDev>>, u64, u64) {
    lg_init_concrete();
    let offered: u64 = kani::any();
    kani::assume((offered & (1 << 28) != 0) == ind);
    let mut t = mt::<BlkDev>(DeviceType::Block, offered);
    let cap: u64 = kani::any();
    t.cfg[..8].copy_from_slice(&cap.to_le_bytes());
    unsafe {
        D_IND = ind;
        D_STATUS = kani::any();
        // byte positions compared: first, last of the first sector, first / last of the second sector
        D_K = match kani::any::<u8>() & 3 { 0 => 0, 1 => 511, 2 => 512, _ => 1023 };
        D_BYTE = kani::any();
    }
    let blk = VirtIOBlk::<THal<N>, MT<BlkDev>>::new(t).unwrap();
    (blk, offered, cap)
}

fn check_drop_order() {
    // C09: queue memory may only be released after the queue was disabled or the device reset
    unsafe {
        let unset = ev_find(EV_QUEUE_UNSET, Some(0), 0);
        let reset = ev_find(EV_RESET_ON_DROP, None, 0);
        let mut i = 0;
        while i < MAXEV {
            if i < EV_N && EVK[i] == EV_DMA_DEALLOC {
                assert!((unset.is_some() && unset.unwrap() < i) || (reset.is_some() && reset.unwrap() < i), "C09: queue memory released while the device was live on that queue");
            }
            i += 1;
        }
        assert!(dma_live_count() == 0 && DMA[0].deallocs == 1 && DMA[1].deallocs == 1, "C09: every DMA region must be returned exactly once");
    }
}

fn blocking_body(ind: bool, op: u8) {
    let (mut blk, offered, cap) = mk(ind);
    let w = check_handshake(offered, SUPPORTED_FEATURES.bits(), 1);
    assert!(q_flags(&blk.queue) == (w & (1 << 28) != 0, w & (1 << 29) != 0, w & (1 << 33) != 0), "C08: queue mechanisms must follow the negotiated features");
    assert!(blk.capacity() == cap, "C14: capacity must equal the device's configuration");
    assert!(blk.readonly() == (w & (1 << 5) != 0), "C14: read-only state must follow the negotiated RO feature");
    let sector: usize = kani::any();
    let st = unsafe { D_STATUS };
    let k = unsafe { D_K };
    match op {
        0 => {
            let mut buf = [0u8; 1024];
            let len: usize = if kani::any() { 512 } else { 1024 };
            let r = blk.read_blocks(sector, &mut buf[..len]);
            unsafe {
                assert!(D_SERVED == 1 && D_SEEN_TYPE == 0 && D_SEEN_RESERVED == 0 && D_SEEN_SECTOR == sector as u64, "C14: read header must encode type IN, reserved 0 and the starting sector");
                assert!(D_DATA_LEN as usize == len, "C14: data part must be the caller's buffer");
                assert!(r == expect(st), "C14: device status must map to success or the corresponding error");
                if k < len { assert!(buf[k] == D_BYTE, "C14: read must return exactly the bytes the device supplied"); }
            }
        }
        1 => {
            let buf: [u8; 1024] = kani::any();
            let len: usize = if kani::any() { 512 } else { 1024 };
            let r = blk.write_blocks(sector, &buf[..len]);
            unsafe {
                assert!(D_SERVED == 1 && D_SEEN_TYPE == 1 && D_SEEN_RESERVED == 0 && D_SEEN_SECTOR == sector as u64, "C14: write header must encode type OUT, reserved 0 and the starting sector");
                assert!(D_DATA_LEN as usize == len, "C14: data part must be the caller's buffer");
                assert!(r == expect(st), "C14: device status must map to success or the corresponding error");
                if k < len { assert!(D_SEEN_BYTE == buf[k], "C14: write must deliver exactly the caller's bytes"); }
            }
        }
        2 => {
            let r = blk.flush();
            unsafe {
                if w & (1 << 9) != 0 {
                    assert!(D_SERVED == 1 && D_SEEN_TYPE == 4 && D_SEEN_SECTOR == 0, "C14: flush request encoding");
                    assert!(r == expect(st), "C14: flush status mapping");
                } else {
                    assert!(D_SERVED == 0 && r == Ok(()), "C14: flush must not be sent unless negotiated");
                }
            }
        }
        _ => {
            let mut id = [0u8; 20];
            let r = blk.device_id(&mut id);
            unsafe {
                assert!(D_SERVED == 1 && D_SEEN_TYPE == 8 && D_DATA_LEN == 20, "C14: get-id request encoding");
                if st == 0 {
                    assert!(r.is_ok(), "C14: get-id result");
                    if k < 20 { assert!(id[k] == D_BYTE, "C14: id bytes"); }
                } else {
                    assert!(r == expect(st).map(|_| 0), "C14: get-id status mapping");
                }
            }
        }
    }
    unsafe {
        assert!(!NOTIFY_BEFORE_OK, "C08: notification before DRIVER_OK");
        assert!(LG_N == 0 || !LG[0].live, "C04: request buffers still shared after the blocking call returned");
    }
    drop(blk);
    check_drop_order();
    kani::cover!(st == 0 && (op != 2 || w & (1 << 9) == 0));
    kani::cover!(st == 2 && k == 511 && sector > 0xffff_ffff);
}

// @harness props=C14,C08 tier=quick timeout=1800
#[kani::proof]
#[kani::unwind(50)]
fn c14_read_direct() { blocking_body(false, 0) }

// @harness props=C14,C08 tier=quick timeout=1800
#[kani::proof]
#[kani::unwind(50)]
fn c14_write_indirect() { blocking_body(true, 1) }

// @harness props=C14,C08 tier=quick timeout=1800
#[kani::proof]
#[kani::unwind(50)]
fn c14_flush_direct() { blocking_body(false, 2) }

// @harness props=C14 tier=quick timeout=1800
#[kani::proof]
#[kani::unwind(50)]
fn c14_device_id_indirect() { blocking_body(true, 3) }

// @harness props=C14,C08,C09 tier=thorough timeout=1800
#[kani::proof]
#[kani::unwind(50)]
fn c14_read_indirect() { blocking_body(true, 0) }

// @harness props=C14,C08,C09 tier=thorough timeout=1800
#[kani::proof]
#[kani::unwind(50)]
fn c14_write_direct() { blocking_body(false, 1) }

// @harness props=C14,C08 tier=thorough timeout=1800
#[kani::proof]
#[kani::unwind(50)]
fn c14_flush_indirect() { blocking_body(true, 2) }

// ---- several outstanding non-blocking requests completed in any order ---------------------------------
/// driver state built directly (initialisation is covered by the blocking harnesses / C08)
fn mk_direct(ind: bool) -> VirtIOBlk<THal<N>, MT<BlkDev>> {
    lg_init_concrete();
    let mut t = mt::<BlkDev>(DeviceType::Block, 0);
    unsafe {
        D_IND = ind;
        D_K = match kani::any::<u8>() & 3 { 0 => 0, 1 => 511, 2 => 512, _ => 1023 };
        D_BYTE = kani::any();
        DRIVER_OK_SEEN = true;
    }
    let queue = VirtQueue::new(&mut t, QUEUE, ind, kani::any(), kani::any()).unwrap();
    VirtIOBlk { transport: t, queue, capacity: 0, negotiated_features: BlkFeature::empty() }
}

fn nb_body(ind: bool, first_is_0: bool) {
    let mut blk = mk_direct(ind);
    unsafe { D_AUTO = false; }
    let mut rq0 = BlkReq::default();
    let mut rq1 = BlkReq::default();
    let mut rs0 = BlkResp::default();
    let mut rs1 = BlkResp::default();
    let mut b0 = [0u8; 512];
    let mut b1 = [0u8; 512];
    b1[unsafe { D_K } % 512] = kani::any();
    let (s0, s1): (usize, usize) = (kani::any(), kani::any());
    let t0 = unsafe { blk.read_blocks_nb(s0, &mut rq0, &mut b0, &mut rs0) }.unwrap();
    let t1 = unsafe { blk.write_blocks_nb(s1, &mut rq1, &b1, &mut rs1) }.unwrap();
    assert!(t0 != t1, "C14: two outstanding requests share a token");
    // the device sees both, in submission order
    assert!(dev_avail_idx::<N>(0) == 2 && dev_avail_slot::<N>(0, 0) == t0 && dev_avail_slot::<N>(0, 1) == t1, "C01: available ring contents");
    // ... and completes them in either order with its own status/data per request
    let (st0, st1): (u8, u8) = (kani::any(), kani::any());
    let (byte0, k) = unsafe { (D_BYTE, D_K) };
    kani::assume(k < 512);
    unsafe {
        let order = if first_is_0 { [t0, t1] } else { [t1, t0] };
        let mut i = 0;
        while i < 2 {
            D_STATUS = if order[i] == t0 { st0 } else { st1 };
            let w = serve(order[i]);
            dev_complete::<N>(0, order[i], w);
            if order[i] == t0 {
                assert!(D_SEEN_TYPE == 0 && D_SEEN_SECTOR == s0 as u64, "C14: first request header");
            } else {
                assert!(D_SEEN_TYPE == 1 && D_SEEN_SECTOR == s1 as u64 && D_SEEN_BYTE == b1[k], "C14: second request header/data");
            }
            i += 1;
        }
    }
    assert!(blk.peek_used() == Some(if first_is_0 { t0 } else { t1 }), "C14: peek_used must name the request the device completed first");
    // completing the one that is not next must be refused without side effects
    let wrong = unsafe { if first_is_0 { blk.complete_write_blocks(t1, &rq1, &b1, &mut rs1) } else { blk.complete_read_blocks(t0, &rq0, &mut b0, &mut rs0) } };
    assert!(wrong == Err(Error::WrongToken), "C03: completion presented out of used-ring order must be refused");
    let (r_a, r_b) = unsafe {
        if first_is_0 {
            let a = blk.complete_read_blocks(t0, &rq0, &mut b0, &mut rs0);
            let b = blk.complete_write_blocks(t1, &rq1, &b1, &mut rs1);
            (a, b)
        } else {
            let b = blk.complete_write_blocks(t1, &rq1, &b1, &mut rs1);
            let a = blk.complete_read_blocks(t0, &rq0, &mut b0, &mut rs0);
            (a, b)
        }
    };
    assert!(r_a == expect(st0), "C14: read completion must return the status of its own request");
    assert!(r_b == expect(st1), "C14: write completion must return the status of its own request");
    assert!(b0[k] == byte0, "C14: read completion must return the data of its own request");
    assert!(blk.peek_used().is_none() && q_num_used(&blk.queue) == 0, "C03: everything consumed");
    core::mem::forget(blk);
    kani::cover!(st0 == 0 && st1 == 1);
    kani::cover!(st0 == 3 && s0 == s1);
}

// @harness props=C14,C03 tier=quick timeout=1800
#[kani::proof]
#[kani::unwind(20)]
fn c14_nb_direct_reversed() { nb_body(false, false) }

// @harness props=C14,C03 tier=thorough timeout=1800
#[kani::proof]
#[kani::unwind(20)]
fn c14_nb_direct_inorder() { nb_body(false, true) }

// @harness props=C14,C03 tier=thorough timeout=1800
#[kani::proof]
#[kani::unwind(20)]
fn c14_nb_indirect_reversed() { nb_body(true, false) }

// ---- failed construction: the k-th DMA allocation fails (C09) --------------------------------------------
// @harness props=C09,C08 tier=quick timeout=1800
#[kani::proof]
#[kani::unwind(50)]
fn c09_blk_fail_k() {
    lg_init_concrete();
    let offered: u64 = kani::any();
    let t = mt::<BlkDev>(DeviceType::Block, offered);
    let k: usize = kani::any();
    kani::assume(k >= 1 && k <= 3);
    unsafe { DMA_FAIL_AT = k; }
    let r = VirtIOBlk::<THal<N>, MT<BlkDev>>::new(t);
    match r {
        Err(e) => {
            assert!(k <= 2, "C09: construction failed although no allocation failed");
            assert!(e == Error::DmaError, "C09: DMA exhaustion must be reported as DmaError");
            assert!(dma_live_count() == 0, "C09: DMA region leaked by a failed construction");
            unsafe {
                assert!(DMA_CNT == k - 1, "C09: allocations made before the failing one");
                if k == 2 { assert!(DMA[0].deallocs == 1, "C09: region allocated before the failure must be returned exactly once"); }
                assert!(ev_count(EV_QUEUE_SET) == 0, "C06: queue registered although its memory could not be allocated");
                assert!(ev_find(EV_SET_STATUS, Some(15), 0).is_none(), "C08/C09: DRIVER_OK set by a failed construction (the device is live while the memory of its queues is released)");
            }
        }
        Ok(b) => {
            assert!(k == 3, "C09: construction succeeded although an allocation failed");
            drop(b);
            check_drop_order();
        }
    }
    kani::cover!(k == 1);
    kani::cover!(k == 2);
    kani::cover!(k == 3);
}
