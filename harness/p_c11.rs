// @mount src/transport/pci.rs
// @needs p_env mm_env
//
// C11 - the PCI transport only uses capability windows that lie inside memory BARs, and every operation
// accesses only those windows at the standard offsets.  Also the PCI half of C13 (config-space bounds).
// Functions encoded: PciTransport::new, get_bar_region(_slice), PciRoot::{capabilities, bar_info},
// CapabilityIterator::next, all of `impl Transport for PciTransport`, Drop.
#![allow(unused, unsafe_op_in_unsafe_fn, clippy::all, static_mut_refs)]
use super::__verif_p_env::*;

// ---- window validation -------------------------------------------------------------------------------
fn bar_region_body<T>(tsize: usize) {
    let mut cfg = cfg0();
    cfg.words[1] = kani::any::<u32>() & 0x0000_0577;
    let slot: usize = kani::any();
    kani::assume(slot < 6);
    // kind: 0 = memory 32, 1 = memory 64, 2 = I/O, 3 = unimplemented
    let kind: u8 = kani::any();
    kani::assume(kind < 4);
    let mut size = 0u64;
    let mut base = 0u64;
    match kind {
        0 => {
            let k: u32 = kani::any();
            kani::assume(k >= 4 && k <= 31);
            let r = install_mem_bar(&mut cfg, slot, k, false, kani::any());
            size = r.0;
            base = r.1;
        }
        1 => {
            kani::assume(slot < 5);
            let k: u32 = kani::any();
            kani::assume(k >= 4 && k <= 63);
            let r = install_mem_bar(&mut cfg, slot, k, true, kani::any());
            size = r.0;
            base = r.1;
        }
        2 => {
            let k: u32 = kani::any();
            kani::assume(k >= 2 && k <= 31);
            let m = !((1u32 << k) - 1);
            cfg.bar_mask[slot] = m & 0xffff_fffc;
            cfg.words[4 + slot] = (kani::any::<u32>() & m & 0xffff_fffc) | 1;
        }
        _ => {}
    }
    let saved = cfg.words;
    let mut root = PciRoot::new(cfg);
    let info = VirtioCapabilityInfo { bar: slot as u8, offset: kani::any(), length: kani::any() };
    let r = get_bar_region::<PHal, T, Cfg>(&mut root, DF0, &info);
    let mut i = 0;
    while i < 16 {
        assert!(root.configuration_access.words[i] == saved[i], "C11: configuration space (command / BARs) not left as found");
        i += 1;
    }
    if r.is_ok() {
        assert!(kind <= 1, "C11: window accepted in an I/O or unimplemented BAR");
        assert!(base != 0, "C11: window accepted in an unallocated BAR");
        assert!(info.offset as u64 + info.length as u64 <= size, "C11: window not contained in the BAR (offset + length over the integers)");
        assert!(info.length as usize >= tsize, "C11: window shorter than the structure it must hold");
        unsafe {
            assert!(MAP_N == 1 && MAP_PADDR[0] == base + info.offset as u64 && MAP_SIZE[0] == info.length as usize, "C11: mapping requested for something other than exactly (BAR base + offset, length)");
        }
    } else {
        // a well-formed window must be accepted
        if kind <= 1 && base != 0 && info.offset as u64 + info.length as u64 <= size && info.length as usize >= tsize {
            assert!(false, "C11: valid window rejected");
        }
    }
    kani::cover!(r.is_ok() && kind == 1 && size > (1u64 << 32));
    kani::cover!(r.is_err() && kind == 0 && base != 0 && info.length as usize >= tsize && info.offset > 0xffff_0000);
}

// @harness props=C11 tier=quick timeout=900
#[kani::proof]
#[kani::unwind(18)]
fn c11_bar_region_common() { bar_region_body::<CommonCfg>(core::mem::size_of::<CommonCfg>()) }

// @harness props=C11 tier=thorough timeout=900
#[kani::proof]
#[kani::unwind(18)]
fn c11_bar_region_u8() { bar_region_body::<u8>(1) }

// ---- capability scan -----------------------------------------------------------------------------------
// @harness props=C11,C13 tier=quick timeout=1800
#[kani::proof]
#[kani::unwind(18)]
fn c11_new_scan() {
    let mut cfg = cfg0();
    cfg.words[0] = 0x1042_1af4; // block device, virtio vendor
    cfg.words[1] = (1u32 << 20) | (kani::any::<u32>() & 0x0000_0477);
    cfg.words[13] = 0x40;
    let k: u32 = kani::any();
    kani::assume(k >= 8 && k <= 31);
    let (size, base) = install_mem_bar(&mut cfg, 0, k, false, false);
    kani::assume(base != 0);
    let mut types = [0u8; 4];
    let mut bars = [0u8; 4];
    let mut offs = [0u32; 4];
    let mut lens = [0u32; 4];
    let mut clen = [0u8; 4];
    let mut ids = [0u8; 4];
    let mut mult = [0u32; 4];
    let mut i = 0;
    while i < 4 {
        let b = 0x40 + 0x14 * i;
        let next: u32 = if i < 3 { (0x40 + 0x14 * (i + 1)) as u32 } else { 0 };
        types[i] = kani::any();
        kani::assume(types[i] <= 5);
        bars[i] = kani::any();
        kani::assume(bars[i] <= 1);
        offs[i] = kani::any();
        lens[i] = kani::any();
        clen[i] = kani::any();
        ids[i] = if kani::any() { 0x09 } else { 0x11 }; // vendor specific or foreign (MSI-X)
        mult[i] = kani::any();
        cfg.words[b / 4] = ids[i] as u32 | (next << 8) | ((clen[i] as u32) << 16) | ((types[i] as u32) << 24);
        cfg.words[b / 4 + 1] = bars[i] as u32;
        cfg.words[b / 4 + 2] = offs[i];
        cfg.words[b / 4 + 3] = lens[i];
        cfg.words[b / 4 + 4] = mult[i];
        i += 1;
    }
    let saved = cfg.words;
    let mut root = PciRoot::new(cfg);
    let r = PciTransport::new::<PHal, Cfg>(&mut root, DF0);
    i = 0;
    while i < 16 {
        assert!(root.configuration_access.words[i] == saved[i], "C11: configuration space not left as found");
        i += 1;
    }
    // reference scan: first sufficiently long vendor capability of each type
    let mut first = [4usize; 5];
    i = 0;
    while i < 4 {
        let t = types[i] as usize;
        if ids[i] == 0x09 && clen[i] >= 16 && t >= 1 && t <= 4 && first[t] == 4 && (t != 2 || clen[i] >= 20) {
            first[t] = i;
        }
        i += 1;
    }
    let win_ok = |j: usize, need: usize| -> bool { j < 4 && bars[j % 4] == 0 && offs[j % 4] as u64 + lens[j % 4] as u64 <= size && lens[j % 4] as usize >= need };
    let should = win_ok(first[1], core::mem::size_of::<CommonCfg>()) && win_ok(first[2], 2) && mult[first[2] % 4] % 2 == 0 && win_ok(first[3], 1)
        && (first[4] == 4 || win_ok(first[4], 4));
    let r_ok = r.is_ok();
    if let Ok(t) = r {
        assert!(should, "C11: transport constructed although a required window is missing, too short or outside its BAR");
        unsafe {
            let c = first[1] % 4;
            let n = first[2] % 4;
            let s = first[3] % 4;
            assert!(MAP_PADDR[0] == base + offs[c] as u64 && MAP_SIZE[0] == lens[c] as usize, "C11: common configuration window is not the first sufficiently long COMMON_CFG capability");
            assert!(MAP_PADDR[1] == base + offs[n] as u64 && MAP_SIZE[1] == lens[n] as usize, "C11: notification window is not the first sufficiently long NOTIFY_CFG capability");
            assert!(MAP_PADDR[2] == base + offs[s] as u64 && MAP_SIZE[2] == lens[s] as usize, "C11: ISR window is not the first ISR_CFG capability");
            assert!(t.notify_off_multiplier == mult[n], "C11: notify multiplier not taken from the chosen notification capability");
            assert!(t.notify_region.len() == lens[n] as usize / 2, "C11: notification region length");
            if first[4] < 4 {
                let d = first[4] % 4;
                assert!(MAP_N == 4 && MAP_PADDR[3] == base + offs[d] as u64 && MAP_SIZE[3] == lens[d] as usize, "C11: device configuration window is not the first DEVICE_CFG capability");
                assert!(t.config_space.as_ref().map(|c| c.len()) == Some(lens[d] as usize / 4), "C13: configuration window length");
            } else {
                assert!(MAP_N == 3 && t.config_space.is_none(), "C11: device configuration window invented");
            }
        }
        core::mem::forget(t);
    } else {
        assert!(!should, "C11: transport construction failed although every required window is valid");
    }
    kani::cover!(r_ok && first[1] == 2 && first[4] == 4);
    kani::cover!(r_ok && first[4] < 4 && first[2] == 0);
    kani::cover!(!r_ok && first[1] < 4 && first[2] < 4 && first[3] < 4);
}

// ---- operations on the windows -------------------------------------------------------------------------
fn mk_pci(cfg_words: usize, mult: u32) -> PciTransport {
    unsafe {
        PciTransport {
            device_type: DeviceType::Block,
            device_function: DF0,
            common_cfg: UniqueMmioPointer::new(NonNull::new(block_ptr().add(WIN_OFF[0]) as *mut CommonCfg).unwrap()),
            notify_region: UniqueMmioPointer::new(NonNull::slice_from_raw_parts(NonNull::new(block_ptr().add(WIN_OFF[1]) as *mut WriteOnly<u16>).unwrap(), 0x40)),
            notify_off_multiplier: mult,
            isr_status: UniqueMmioPointer::new(NonNull::new(block_ptr().add(WIN_OFF[2]) as *mut ReadOnly<u8>).unwrap()),
            config_space: if cfg_words == usize::MAX { None } else {
                Some(UniqueMmioPointer::new(NonNull::slice_from_raw_parts(NonNull::new(block_ptr().add(WIN_OFF[3]) as *mut u32).unwrap(), cfg_words)))
            },
        }
    }
}
fn tr_at(i: usize, off: usize, w: bool, width: u8, v: u64) -> bool {
    unsafe { i < TR_N && TR_OFF[i] == off && TR_W[i] == w && TR_WIDTH[i] == width && TR_VAL[i] == v }
}

// @harness props=C11 tier=quick timeout=900 stubbed=mmio
pci_mmio_harness! {
#[kani::proof]
#[kani::unwind(26)]
fn c11_ops() {
    let mult: u32 = kani::any();
    kani::assume(mult % 2 == 0 && mult <= 8);
    let mut t = mk_pci(8, mult);
    let op: u8 = kani::any();
    kani::assume(op < 11);
    let q: u16 = kani::any();
    match op {
        0 => {
            let (lo, hi): (u32, u32) = (kani::any(), kani::any());
            unsafe { SEL_OFF = 4; SEL_SRC_OFF = 0; SEL_VAL = [lo, hi]; }
            let f = t.read_device_features();
            assert!(tr_len() == 4 && tr_at(0, 0, true, 4, 0) && tr_at(1, 4, false, 4, lo as u64) && tr_at(2, 0, true, 4, 1) && tr_at(3, 4, false, 4, hi as u64), "C11: device feature select/read sequence");
            assert!(f == lo as u64 | ((hi as u64) << 32), "C11: device feature words combined wrongly");
        }
        1 => {
            let f: u64 = kani::any();
            t.write_driver_features(f);
            assert!(tr_len() == 4 && tr_at(0, 8, true, 4, 0) && tr_at(1, 12, true, 4, f & 0xffff_ffff) && tr_at(2, 8, true, 4, 1) && tr_at(3, 12, true, 4, f >> 32), "C11: driver feature select/write sequence");
        }
        2 => {
            let m: u16 = kani::any();
            unsafe { DEV[24 / 4] = m as u32; }
            let r = t.max_queue_size(q);
            assert!(tr_len() == 2 && tr_at(0, 22, true, 2, q as u64) && tr_at(1, 24, false, 2, m as u64) && r == m as u32, "C11: max_queue_size must select the queue then read queue_size");
        }
        3 => {
            let noff: u16 = kani::any();
            kani::assume((noff as u32) * mult / 2 < 0x40);
            unsafe { DEV[28 / 4] = (noff as u32) << 16; }
            t.notify(q);
            assert!(tr_len() == 3 && tr_at(0, 22, true, 2, q as u64) && tr_at(1, 30, false, 2, noff as u64), "C11: notify must select the queue and read its notify offset");
            assert!(tr_at(2, WIN_OFF[1] + (noff as usize) * (mult as usize), true, 2, q as u64), "C11: notification must be written at notify_off x multiplier inside the notification window");
        }
        4 => {
            let s: u8 = kani::any();
            unsafe { DEV[20 / 4] = s as u32; }
            let r = t.get_status();
            assert!(tr_len() == 1 && tr_at(0, 20, false, 1, s as u64) && r.bits() == (s as u32 & 0xcf), "C11: get_status must be one byte read of device_status");
        }
        5 => {
            let s: u32 = kani::any();
            kani::assume(s < 256);
            t.set_status(DeviceStatus::from_bits_retain(s));
            assert!(tr_len() == 1 && tr_at(0, 20, true, 1, s as u64), "C11: set_status must be one byte write of device_status");
        }
        6 => {
            let size: u32 = kani::any();
            kani::assume(size <= 0xffff);
            let (d, a, u): (u64, u64, u64) = (kani::any(), kani::any(), kani::any());
            t.queue_set(q, size, d, a, u);
            assert!(tr_at(0, 22, true, 2, q as u64) && tr_at(1, 24, true, 2, size as u64), "C11: queue_set must select the queue before per-queue fields");
            assert!(tr_len() == 6 && tr_at(2, 32, true, 8, d) && tr_at(3, 40, true, 8, a) && tr_at(4, 48, true, 8, u), "C11: queue addresses at offsets 32/40/48");
            assert!(tr_at(5, 28, true, 2, 1), "C11: queue_enable must be written last");
        }
        7 => {
            let e: u16 = kani::any();
            unsafe { DEV[28 / 4] = e as u32; }
            let r = t.queue_used(q);
            assert!(tr_len() == 2 && tr_at(0, 22, true, 2, q as u64) && tr_at(1, 28, false, 2, e as u64) && r == (e == 1), "C11: queue_used must select the queue then read queue_enable");
        }
        8 => {
            let v: u8 = kani::any();
            unsafe { DEV[WIN_OFF[2] / 4] = v as u32; }
            let r = t.ack_interrupt();
            assert!(tr_len() == 1 && tr_at(0, WIN_OFF[2], false, 1, v as u64) && r.bits() == v as u32, "C11: ack_interrupt must be one byte read of the ISR window");
        }
        9 => {
            let g: u8 = kani::any();
            unsafe { DEV[20 / 4] = (g as u32) << 8; }
            let r = t.read_config_generation();
            assert!(tr_len() == 1 && tr_at(0, 21, false, 1, g as u64) && r == g as u32, "C11: config generation is the byte at offset 21");
        }
        _ => {
            t.queue_unset(q);
            t.set_guest_page_size(kani::any());
            assert!(tr_len() == 0 && !t.requires_legacy_layout() && t.device_type() == DeviceType::Block, "C11: no-op operations must not touch the device");
        }
    }
    // every access stayed inside one of the windows handed to the transport
    let mut i = 0;
    while i < MAXTR {
        if i < tr_len() {
            let o = unsafe { TR_OFF[i] };
            assert!(o < 56 || (o >= WIN_OFF[1] && o < WIN_OFF[1] + 0x80) || o == WIN_OFF[2] || (o >= WIN_OFF[3] && o < WIN_OFF[3] + 32), "C11: access outside the capability windows");
        }
        i += 1;
    }
    // drop: reset and wait for the reset to complete
    tr_reset();
    let j: u32 = kani::any();
    kani::assume(j <= 2);
    unsafe { POLL_OFF = 20; POLL_LEFT = j; POLL_BUSY_VAL = 0x0f; }
    drop(t);
    assert!(tr_len() == 2 + j as usize && tr_at(0, 20, true, 1, 0), "C11: drop must write device_status = 0 and poll until it reads back 0");
    assert!(unsafe { !TR_W[1 + j as usize] && TR_OFF[1 + j as usize] == 20 }, "C11: drop must wait for the reset to complete");
    kani::cover!(op == 3 && mult == 4);
    kani::cover!(op == 6 && j == 2);
}
}

// ---- C13 (PCI): configuration access bounds ------------------------------------------------------------
fn cfg_bounds_body<T: zerocopy::FromBytes + zerocopy::IntoBytes + zerocopy::Immutable + Copy>(tsize: usize, talign: usize) {
    let words: usize = kani::any();
    kani::assume(words <= 8 || words == usize::MAX);
    let mut t = mk_pci(words, 0);
    let off: usize = kani::any();
    kani::assume(off % talign == 0);
    let write: bool = kani::any();
    let r: Result<(), Error> = if write {
        let v: T = T::read_from_bytes(&[0x5au8; 8][..tsize]).unwrap();
        t.write_config_space::<T>(off, v)
    } else {
        t.read_config_space::<T>(off).map(|_| ())
    };
    let inside = words != usize::MAX && (off as u128) + (tsize as u128) <= (words as u128) * 4;
    if words == usize::MAX {
        assert!(r == Err(Error::ConfigSpaceMissing), "C13: access without a configuration window must fail with ConfigSpaceMissing");
    } else if !inside {
        assert!(r == Err(Error::ConfigSpaceTooSmall), "C13: access not wholly inside the configuration window must fail with ConfigSpaceTooSmall");
    } else {
        assert!(r.is_ok(), "C13: access inside the configuration window must succeed");
    }
    if inside {
        // exactly the bytes [off, off+size) of the window, nothing else
        let mut covered = 0usize;
        let mut i = 0;
        while i < MAXTR {
            if i < tr_len() {
                let (o, w, wd) = unsafe { (TR_OFF[i], TR_W[i], TR_WIDTH[i] as usize) };
                assert!(w == write, "C13: wrong access direction");
                assert!(o >= WIN_OFF[3] + off && o + wd <= WIN_OFF[3] + off + tsize, "C13: access touched bytes outside the requested field");
                covered += wd;
            }
            i += 1;
        }
        assert!(covered == tsize, "C13: access must touch exactly the bytes of the field");
    } else {
        assert!(tr_len() == 0, "C13: failed configuration access must not touch the device");
    }
    core::mem::forget(t);
    kani::cover!(inside && off + tsize == words * 4);
    kani::cover!(!inside && words != usize::MAX && off <= words * 4 && off + tsize > words * 4);
    kani::cover!(off > usize::MAX - 8);
}

// @harness props=C13 tier=quick timeout=900 stubbed=mmio
pci_mmio_harness! {
#[kani::proof]
#[kani::unwind(26)]
fn c13_bounds_pci_u32() { cfg_bounds_body::<u32>(4, 4) }
}

// @harness props=C13 tier=quick timeout=900 stubbed=mmio
pci_mmio_harness! {
#[kani::proof]
#[kani::unwind(26)]
fn c13_bounds_pci_u16() { cfg_bounds_body::<u16>(2, 2) }
}

// @harness props=C13 tier=thorough timeout=900 stubbed=mmio
pci_mmio_harness! {
#[kani::proof]
#[kani::unwind(26)]
fn c13_bounds_pci_u8() { cfg_bounds_body::<u8>(1, 1) }
}

// @harness props=C13 tier=quick timeout=900 stubbed=mmio
pci_mmio_harness! {
#[kani::proof]
#[kani::unwind(26)]
fn c13_bounds_pci_mac() { cfg_bounds_body::<[u8; 6]>(6, 1) }
}

// C08 on the real PCI transport: begin_init / finish_init register sequence on the common configuration window
// @harness props=C08,C11 tier=quick timeout=900 stubbed=mmio
pci_mmio_harness! {
#[kani::proof]
#[kani::unwind(50)]
fn c08_pci_begin_init() {
    let mut t = mk_pci(8, 2);
    let (lo, hi): (u32, u32) = (kani::any(), kani::any());
    unsafe { SEL_OFF = 4; SEL_SRC_OFF = 0; SEL_VAL = [lo, hi]; }
    let offered = (lo as u64) | ((hi as u64) << 32);
    let supported: u64 = kani::any();
    kani::assume(supported & (1 << 32) != 0);
    let neg = t.begin_init(crate::device::common::Feature::from_bits_retain(supported));
    let want = crate::device::common::Feature::from_bits_truncate(offered).bits() & supported;
    assert!(neg.bits() == want, "C08: negotiated features must be offered AND supported");
    assert!(tr_at(0, 20, true, 1, 0) && tr_at(1, 20, true, 1, 3), "C08: reset, then ACKNOWLEDGE|DRIVER");
    assert!(tr_at(2, 0, true, 4, 0) && tr_at(3, 4, false, 4, lo as u64) && tr_at(4, 0, true, 4, 1) && tr_at(5, 4, false, 4, hi as u64), "C08: device features read after ACKNOWLEDGE|DRIVER");
    assert!(tr_at(6, 8, true, 4, 0) && tr_at(7, 12, true, 4, want & 0xffff_ffff) && tr_at(8, 8, true, 4, 1) && tr_at(9, 12, true, 4, want >> 32), "C08: driver features written before FEATURES_OK");
    assert!(tr_len() == 11 && tr_at(10, 20, true, 1, 11), "C08: FEATURES_OK set after the features are written, nothing else");
    tr_reset();
    t.finish_init();
    assert!(tr_len() == 1 && tr_at(0, 20, true, 1, 15), "C08: finish_init sets DRIVER_OK on top of the other bits");
    core::mem::forget(t);
    kani::cover!(want & (1 << 32) != 0);
    kani::cover!(offered != want);
}
}
