// @mount src/device/net/dev.rs
// @needs q_env d_netraw
//
// Buffer-managing network driver (C16 ownership of receive buffers, C07 hostile token/length).
// Functions encoded: VirtIONet::{receive, recycle_rx_buffer, can_recv, can_send, send}, RxBuffer::{new, packet,
// packet_len, header, as_bytes(_mut)}, TxBuffer.
#![allow(unused, unsafe_op_in_unsafe_fn, clippy::all, static_mut_refs)]
use super::*;
use crate::device::net::dev_raw::__verif_d_netraw::*;

const BUF_LEN: usize = 1536;
type Net = VirtIONet<THal<Q>, MT<NetDev>, Q>;

/// all receive buffers posted, exactly as VirtIONet::new() does after the raw driver is up
fn mk(legacy: bool) -> Net {
    let mut inner = mk_raw(legacy);
    const NONE_BUF: Option<RxBuffer> = None;
    let mut rx_buffers = [NONE_BUF; Q];
    let mut i = 0;
    while i < Q {
        let mut rx_buf = RxBuffer::new(i, BUF_LEN, legacy);
        let token = unsafe { inner.receive_begin(rx_buf.as_bytes_mut()) }.unwrap();
        assert!(token == i as u16, "C16: token i is buffer i");
        rx_buffers[i] = Some(rx_buf);
        i += 1;
    }
    VirtIONet { inner, rx_buffers }
}

fn posted(n: &Net) -> usize {
    let mut c = 0;
    let mut i = 0;
    while i < Q {
        if n.rx_buffers[i].is_some() { c += 1; }
        i += 1;
    }
    c
}

fn rx_step_body(legacy: bool) {
    let mut net = mk(legacy);
    assert!(posted(&net) == Q && !net.can_recv(), "C16: after construction every buffer is posted and nothing is received");
    let hdr = if legacy { 10usize } else { 12 };
    // the device fills a posted buffer of its choice with a frame of symbolic length
    let tok: u16 = kani::any();
    kani::assume((tok as usize) < Q);
    let flen: usize = kani::any();
    kani::assume(flen <= BUF_LEN - hdr);
    let (b0, bl): (u8, u8) = (kani::any(), kani::any());
    let c = dev_chain::<Q>(0, tok, false);
    assert!(c.n == 1 && c.write[0] && c.len[0] as usize == BUF_LEN, "C16: posted receive buffer");
    unsafe {
        if flen > 0 {
            dev_wr(&c, 0, hdr, b0);
            dev_wr(&c, 0, hdr + flen - 1, bl);
        }
    }
    dev_complete::<Q>(0, tok, (hdr + flen) as u32);
    assert!(net.can_recv(), "C16: readiness query must agree with the queue");
    let r = net.receive();
    assert!(r.is_ok(), "C16: a completed buffer must be handed to the caller");
    let rx = r.unwrap();
    assert!(rx.idx == tok && rx.packet_len() == flen && rx.packet().len() == flen, "C16: packet length must be the used length minus the header size");
    if flen > 0 {
        assert!(rx.packet()[0] == b0 || flen == 1, "C16: received frame bytes");
        assert!(rx.packet()[flen - 1] == bl, "C16: received frame bytes");
    }
    // every buffer is either posted or owned by the caller
    assert!(posted(&net) == Q - 1 && net.rx_buffers[tok as usize].is_none() && raw_rx_queue_used(&net.inner) == (Q - 1) as u16, "C16: a received buffer must leave the posted set exactly once");
    let rc = net.recycle_rx_buffer(rx);
    assert!(rc.is_ok(), "C16: recycling a buffer must succeed");
    assert!(posted(&net) == Q && raw_rx_queue_used(&net.inner) == Q as u16, "C16: posted buffers must return to the queue size once all buffers are recycled");
    assert!(net.rx_buffers[tok as usize].as_ref().map(|b| b.idx) == Some(tok), "C16: recycled buffer must be recorded under the token it was posted with");
    assert!(!net.can_recv() && net.can_send(), "C16: readiness queries after recycling");
    core::mem::forget(net);
    kani::cover!(tok == 3 && flen == 0);
    kani::cover!(tok == 0 && flen == BUF_LEN - hdr);
}

// @harness props=C16 tier=thorough timeout=1800
#[kani::proof]
#[kani::unwind(20)]
fn c16_rx_buffered_modern() { rx_step_body(false) }

// @harness props=C16 tier=quick timeout=1800
#[kani::proof]
#[kani::unwind(20)]
fn c16_rx_buffered_legacy() { rx_step_body(true) }

// hostile device (C07): arbitrary token / length; outcome is a result, an error or a clean panic
// @harness props=C07 tier=quick timeout=1800 panic=clean
#[kani::proof]
#[kani::unwind(20)]
fn c07_net_hostile_used() {
    let mut net = mk(false);
    let id: u32 = kani::any();
    let len: u32 = kani::any();
    dev_hostile_used::<Q>(0, 0, id, len, kani::any());
    let r = net.receive();
    if let Ok(rx) = r {
        assert!((id as u16 as usize) < Q && rx.idx == id as u16, "C07: buffer handed out for a token that was never issued");
        // looking at the packet either panics cleanly or stays inside the buffer
        let p = rx.packet();
        assert!(p.len() + 12 <= BUF_LEN, "C07: packet slice exceeds its backing buffer");
        core::mem::forget(rx);
    }
    core::mem::forget(net);
    kani::cover!(len == 11);
    kani::cover!(len > 2000 && id == 2);
}

// two buffers held by the caller and recycled in reception order: the free list is LIFO, so each buffer comes back
// under the *other* descriptor and the recorded token must follow
fn rx_two_body(legacy: bool) -> [bool; 2] {
    let mut net = mk(legacy);
    let hdr = if legacy { 10usize } else { 12 };
    let (ta, tb): (u16, u16) = (kani::any(), kani::any());
    kani::assume((ta as usize) < Q && (tb as usize) < Q && ta != tb);
    dev_complete::<Q>(0, ta, (hdr + 1) as u32);
    dev_complete::<Q>(0, tb, (hdr + 2) as u32);
    let ra = net.receive().unwrap();
    let rb = net.receive().unwrap();
    assert!(ra.idx == ta && rb.idx == tb && ra.packet_len() == 1 && rb.packet_len() == 2, "C16: buffers must be received in the order the device used them");
    assert!(posted(&net) == Q - 2 && !net.can_recv(), "C16: two buffers owned by the caller");
    assert!(net.recycle_rx_buffer(ra).is_ok() && net.recycle_rx_buffer(rb).is_ok(), "C16: recycling must succeed");
    assert!(posted(&net) == Q && raw_rx_queue_used(&net.inner) == Q as u16, "C16: posted buffers must return to the queue size once all buffers are recycled");
    // every posted buffer is recorded under the token the device will report for it
    let mut i = 0;
    while i < Q {
        assert!(net.rx_buffers[i].as_ref().map(|b| b.idx as usize) == Some(i), "C16: a recycled buffer must be recorded under the token it was re-posted with");
        i += 1;
    }
    if !legacy {
        core::mem::forget(net);
        return [ta == 3 && tb == 0, ta == 1 && tb == 2];
    }
    // ... so a later completion of either is received, not lost (thorough instantiation)
    let t2: u16 = if kani::any() { ta } else { tb };
    dev_complete::<Q>(0, t2, (hdr + 3) as u32);
    let r3 = net.receive();
    assert!(r3.is_ok(), "C16: a re-posted buffer must be receivable again (none lost)");
    let r3 = r3.unwrap();
    assert!(r3.idx == t2 && r3.packet_len() == 3, "C16: received buffer identity / length after recycling");
    core::mem::forget(r3);
    core::mem::forget(net);
    [ta == 3 && tb == 0, ta == 1 && tb == 2 && t2 == ta]
}

// @harness props=C16 tier=quick timeout=1800
#[kani::proof]
#[kani::unwind(20)]
fn c16_rx_buffered_two_modern() {
    let w = rx_two_body(false);
    kani::cover!(w[0]);
    kani::cover!(w[1]);
}

// @harness props=C16 tier=thorough timeout=1800
#[kani::proof]
#[kani::unwind(20)]
fn c16_rx_buffered_two_legacy() {
    let w = rx_two_body(true);
    kani::cover!(w[0]);
    kani::cover!(w[1]);
}
