// @mount src/queue.rs
// @needs q_env
//
// C04 - bounce-buffer platform: the device only ever sees addresses of bounce buffers, the bytes it
// wrote reach the caller's writable buffer exactly when the completion is consumed, and the bytes of
// readable buffers reach the device intact.  Functions encoded: VirtQueue::{add, pop_used,
// recycle_descriptors}, Descriptor::set_buf.
#![allow(unused, unsafe_op_in_unsafe_fn, clippy::all, static_mut_refs)]
use super::__verif_q_env::*;

const SLOTS: usize = 6;
const SLOT_BYTES: usize = 4;
const ARENA_BASE: u64 = 0x7000_0000;
static mut ARENA: [[u8; SLOT_BYTES]; SLOTS] = [[0; SLOT_BYTES]; SLOTS];
static mut A_PTR: [usize; SLOTS] = [0; SLOTS];
static mut A_LEN: [usize; SLOTS] = [0; SLOTS];
static mut A_DIR: [u8; SLOTS] = [0; SLOTS];
static mut A_LIVE: [bool; SLOTS] = [false; SLOTS];
static mut A_N: usize = 0;

/// A platform that bounces every buffer to a distinct device address (hal/fake.rs semantics on a fixed arena).
struct BHal;
unsafe impl Hal for BHal {
    fn dma_alloc(_pages: usize, _d: BufferDirection, _a: bool) -> (PhysAddr, NonNull<u8>) {
        (0x10000, NonNull::new(unsafe { ARENA[0].as_mut_ptr() }).unwrap())
    }
    unsafe fn dma_dealloc(_p: PhysAddr, _v: NonNull<u8>, _pages: usize, _a: bool) -> i32 { 0 }
    unsafe fn mmio_phys_to_virt(p: PhysAddr, _s: usize) -> NonNull<u8> { NonNull::new(p as usize as *mut u8).unwrap() }
    unsafe fn share(b: NonNull<[u8]>, d: BufferDirection, _ap: bool) -> PhysAddr {
        let i = A_N;
        assert!(i < SLOTS, "harness: arena full");
        assert!(dir_code(d) != 2, "C04: buffer shared with direction Both");
        A_PTR[i] = b.as_ptr() as *mut u8 as usize;
        A_LEN[i] = b.len();
        A_DIR[i] = dir_code(d);
        A_LIVE[i] = true;
        if dir_code(d) == D2D && b.len() <= SLOT_BYTES {
            let src = b.as_ptr() as *const u8;
            let mut j = 0;
            while j < SLOT_BYTES {
                if j < b.len() { ARENA[i][j] = *src.add(j); }
                j += 1;
            }
        }
        A_N = i + 1;
        ARENA_BASE + (i as u64) * 0x100
    }
    unsafe fn unshare(p: PhysAddr, b: NonNull<[u8]>, d: BufferDirection, _ap: bool) {
        assert!(p >= ARENA_BASE && (p - ARENA_BASE) % 0x100 == 0, "C04: unshare of an address share() never returned");
        let i = ((p - ARENA_BASE) / 0x100) as usize;
        assert!(i < A_N && A_LIVE[i], "C04: unshare of a device address that is not a live share");
        assert!(A_PTR[i] == b.as_ptr() as *mut u8 as usize && A_LEN[i] == b.len() && A_DIR[i] == dir_code(d), "C04: unshare arguments differ from share");
        A_LIVE[i] = false;
        if dir_code(d) == D2H && b.len() <= SLOT_BYTES {
            let dst = b.as_ptr() as *mut u8;
            let mut j = 0;
            while j < SLOT_BYTES {
                if j < b.len() { *dst.add(j) = ARENA[i][j]; }
                j += 1;
            }
        }
    }
}

fn dev_slot(addr: u64) -> usize {
    assert!(addr >= ARENA_BASE && (addr - ARENA_BASE) % 0x100 == 0 && ((addr - ARENA_BASE) / 0x100) < SLOTS as u64,
        "C04: device was given an address that did not come from share()");
    ((addr - ARENA_BASE) / 0x100) as usize
}

fn bounce_body<const IND: bool>() {
    const N: usize = 2;
    let mut b = zero_backing::<N>();
    let mut q = mk_queue::<BHal, N>(&mut b, 0, IND, kani::any(), kani::any());
    let base: u16 = kani::any();
    q.avail_idx = base;
    q.last_used_idx = base;
    b.avail.idx.store(base, Ordering::Relaxed);
    b.used.idx.store(base, Ordering::Relaxed);
    let x: [u8; 4] = kani::any();
    let y0: [u8; 4] = kani::any();
    let mut y = y0;
    let lx: usize = kani::any();
    let ly: usize = kani::any();
    kani::assume(lx >= 1 && lx <= 4 && ly >= 1 && ly <= 4);
    let tok = unsafe { q.add(&[&x[..lx]], &mut [&mut y[..ly]]) }.unwrap();
    // ---- reference device: walk the chain it was given, read the readable part, write the writable part
    let head = b.avail.ring[(base as usize) & (N - 1)] as usize;
    assert!(head < N, "C01: head out of range");
    let d0 = dv(&b.desc[head]);
    let (r_addr, r_len, w_addr, w_len) = if IND {
        assert!(d0.flags == 4 && d0.len == 32, "C01: indirect descriptor malformed");
        let ts = dev_slot(d0.addr); // the table itself was bounced too
        // table bytes live in the arena slot only if it fits; tables are 32 bytes, so the harness reads the
        // driver's copy through the queue's own pointer instead
        let t = unsafe { q.indirect_lists[head].unwrap().as_ref() };
        (t[0].addr, t[0].len, t[1].addr, t[1].len)
    } else {
        assert!(d0.flags == 1, "C01: first descriptor must be device-readable with NEXT");
        let d1 = dv(&b.desc[(d0.next as usize) % N]);
        assert!(d1.flags == 2, "C01: second descriptor must be device-writable, last");
        (d0.addr, d0.len, d1.addr, d1.len)
    };
    let rs = dev_slot(r_addr);
    let ws = dev_slot(w_addr);
    assert!(r_len as usize == lx && w_len as usize == ly, "C01: descriptor lengths differ from the caller's buffers");
    let k: usize = kani::any();
    kani::assume(k < 4);
    if k < lx {
        assert!(unsafe { ARENA[rs][k] } == x[k], "C04: device-readable bytes seen by the device differ from the caller's");
    }
    let wbytes: [u8; 4] = kani::any();
    unsafe {
        let mut j = 0;
        while j < 4 {
            if j < ly { ARENA[ws][j] = wbytes[j]; }
            j += 1;
        }
    }
    b.used.ring[(base as usize) & (N - 1)] = UsedElem { id: head as u32, len: ly as u32 };
    b.used.idx.store(base.wrapping_add(1), Ordering::Relaxed);
    // ---- nothing reaches the caller before the completion is consumed
    assert!(y[k] == y0[k], "C04: caller's writable buffer changed before the completion was consumed");
    let r = unsafe { q.pop_used(tok, &[&x[..lx]], &mut [&mut y[..ly]]) };
    assert!(r == Ok(ly as u32), "C03: pop_used result");
    if k < ly {
        assert!(y[k] == wbytes[k], "C04: bytes the device wrote did not appear in the caller's buffer when the completion was consumed");
    } else {
        assert!(y[k] == y0[k], "C04: bytes beyond the buffer changed");
    }
    unsafe {
        let mut i = 0;
        while i < SLOTS {
            assert!(!A_LIVE[i], "C04: a share is still live after the completion was consumed");
            i += 1;
        }
        assert!(A_N == if IND { 3 } else { 2 }, "C04: number of share calls");
    }
    kani::cover!(k + 1 == ly && wbytes[k] != y0[k]);
    kani::cover!(base == 0xffff && lx == 4);
    core::mem::forget(q);
}

// @harness props=C04 tier=quick timeout=900
#[kani::proof]
#[kani::unwind(8)]
fn c04_bounce_direct() { bounce_body::<false>() }

// @harness props=C04 tier=quick timeout=900
#[kani::proof]
#[kani::unwind(8)]
fn c04_bounce_indirect() { bounce_body::<true>() }
