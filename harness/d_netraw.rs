// @mount src/device/net/dev_raw.rs
// @needs q_env
//
// Raw network driver (C16 frames/headers, C08 handshake and header-size selection, C09 teardown, C07 hostile
// used length).  Functions encoded: VirtIONetRaw::{new, send, transmit_begin, transmit_complete, poll_transmit,
// receive_begin, receive_complete, poll_receive, fill_buffer_header, can_send, mac_address}, Drop.
#![allow(unused, unsafe_op_in_unsafe_fn, clippy::all, static_mut_refs)]
use super::*;
pub use crate::queue::__verif_q_env::*;

pub const Q: usize = 4;
pub static mut TX_SERVED: u32 = 0;
pub static mut TX_PARTS: usize = 0;
pub static mut TX_HDR_LEN: u32 = 0;
pub static mut TX_HDR_NONZERO: bool = false;
pub static mut TX_FRAME_LEN: u32 = 0;
pub static mut TX_K: usize = 0;
pub static mut TX_BYTE: u8 = 0;
pub static mut D_IND: bool = false;

pub struct NetDev;
impl DevModel for NetDev {
    fn on_notify(q: u16) {
        unsafe {
            if q == QUEUE_TRANSMIT {
                if let Some(head) = dev_take::<Q>(1) {
                    let c = dev_chain::<Q>(1, head, D_IND);
                    assert!(c.n >= 1 && c.n <= 2 && !c.write[0] && (c.n == 1 || !c.write[1]), "C16: a transmitted frame is one or two device-readable parts");
                    TX_PARTS = c.n;
                    TX_HDR_LEN = c.len[0];
                    let mut i = 0;
                    while i < 12 {
                        if (i as u32) < c.len[0] && dev_rd(&c, 0, i) != 0 { TX_HDR_NONZERO = true; }
                        i += 1;
                    }
                    TX_FRAME_LEN = if c.n == 2 { c.len[1] } else { 0 };
                    if c.n == 2 && (TX_K as u32) < c.len[1] { TX_BYTE = dev_rd(&c, 1, TX_K); }
                    dev_complete::<Q>(1, head, 0);
                    TX_SERVED += 1;
                }
            } else {
                assert!(q == QUEUE_RECEIVE, "C16: notification for a queue the network device does not have");
            }
        }
    }
}
pub type Raw = VirtIONetRaw<THal<Q>, MT<NetDev>, Q>;

/// driver state built directly (initialisation is checked by c08_net_new_*)
pub fn mk_raw(legacy: bool) -> Raw {
    lg_init_concrete();
    let mut t = mt::<NetDev>(DeviceType::Network, 0);
    unsafe { DRIVER_OK_SEEN = true; D_IND = false; }
    let ev: bool = kani::any();
    let send_queue = VirtQueue::new(&mut t, QUEUE_TRANSMIT, false, ev, false).unwrap();
    let recv_queue = VirtQueue::new(&mut t, QUEUE_RECEIVE, false, ev, false).unwrap();
    VirtIONetRaw { transport: t, mac: [0; 6], recv_queue, send_queue, legacy_header: legacy }
}
pub fn raw_rx_queue_used(r: &Raw) -> u16 { q_num_used(&r.recv_queue) }

fn tx_body(legacy: bool) {
    let mut net = mk_raw(legacy);
    let frame: [u8; 16] = kani::any();
    let n: usize = kani::any();
    kani::assume(n <= 16);
    unsafe { TX_K = kani::any(); kani::assume(TX_K < 16); }
    assert!(net.can_send(), "C16: an empty transmit queue can send");
    let r = net.send(&frame[..n]);
    assert!(r.is_ok(), "C16: send on an idle device must succeed");
    let hdr = if legacy { 10 } else { 12 };
    unsafe {
        assert!(TX_SERVED == 1, "C16: exactly one transmit request");
        assert!(TX_HDR_LEN == hdr && !TX_HDR_NONZERO, "C16: frame must be preceded by a zeroed virtio-net header of the size the negotiated features require");
        assert!(TX_FRAME_LEN as usize == n && TX_PARTS == if n == 0 { 1 } else { 2 }, "C16: exactly the caller's bytes follow the header (an empty frame is the header only)");
        if TX_K < n { assert!(TX_BYTE == frame[TX_K], "C16: transmitted bytes differ from the caller's frame"); }
    }
    // fill_buffer_header writes the same header
    let mut b = [0xffu8; 16];
    let fr = net.fill_buffer_header(&mut b);
    assert!(fr == Ok(hdr as usize) && b[0] == 0 && b[hdr as usize - 1] == 0 && b[hdr as usize] == 0xff, "C16: fill_buffer_header");
    core::mem::forget(net);
    kani::cover!(n == 0);
    kani::cover!(n == 16 && unsafe { TX_K } == 15);
}

// @harness props=C16 tier=quick timeout=1200
#[kani::proof]
#[kani::unwind(20)]
fn c16_tx_modern() { tx_body(false) }

// @harness props=C16 tier=quick timeout=1200
#[kani::proof]
#[kani::unwind(20)]
fn c16_tx_legacy() { tx_body(true) }

// non-blocking transmit: token, completion
// @harness props=C16 tier=thorough timeout=1200
#[kani::proof]
#[kani::unwind(20)]
fn c16_tx_nb_modern() {
    let mut net = mk_raw(false);
    let buf: [u8; 32] = kani::any();
    let n: usize = kani::any();
    kani::assume(n <= 32);
    let r = unsafe { net.transmit_begin(&buf[..n]) };
    if n < 12 {
        assert!(r == Err(Error::InvalidParam) && unsafe { TX_SERVED } == 0, "C16: a transmit buffer shorter than the header must be refused");
    } else {
        let tok = r.unwrap();
        assert!(net.poll_transmit() == Some(tok), "C16: readiness query must agree with the queue");
        let c = unsafe { net.transmit_complete(tok, &buf[..n]) };
        assert!(c == Ok(0) && net.poll_transmit().is_none(), "C16: transmit completion");
    }
    core::mem::forget(net);
    kani::cover!(n == 12);
    kani::cover!(n == 11);
}

// raw receive: (header size, used length - header size), IoError when the device reports less than a header
fn rx_body(legacy: bool) {
    let mut net = mk_raw(legacy);
    let mut buf = [0u8; 1536];
    let tok = unsafe { net.receive_begin(&mut buf) }.unwrap();
    assert!(net.poll_receive().is_none(), "C16: nothing received yet");
    let head = dev_take::<Q>(0).unwrap();
    let c = dev_chain::<Q>(0, head, false);
    assert!(c.n == 1 && c.write[0] && c.len[0] == 1536, "C16: receive buffer is one device-writable part of the caller's length");
    let l: u32 = kani::any();
    kani::assume(l <= 1536);
    let hdr = if legacy { 10usize } else { 12 };
    let fb: u8 = kani::any();
    unsafe { dev_wr(&c, 0, hdr, fb); }
    dev_complete::<Q>(0, head, l);
    assert!(net.poll_receive() == Some(tok), "C16: readiness query must agree with the queue");
    let r = unsafe { net.receive_complete(tok, &mut buf) };
    if (l as usize) < hdr {
        assert!(r == Err(Error::IoError), "C16: a used length shorter than the header is an I/O error");
    } else {
        assert!(r == Ok((hdr, l as usize - hdr)), "C16: packet length must be the used length minus the header size");
        assert!(buf[hdr] == fb, "C16: received frame bytes");
    }
    assert!(raw_rx_queue_used(&net) == 0, "C16: receive request consumed");
    core::mem::forget(net);
    kani::cover!(l as usize == hdr);
    kani::cover!(l == 1536);
    kani::cover!(l == 3);
}

// @harness props=C16,C07 tier=quick timeout=1200
#[kani::proof]
#[kani::unwind(20)]
fn c16_rx_raw_modern() { rx_body(false) }

// @harness props=C16,C07 tier=quick timeout=1200
#[kani::proof]
#[kani::unwind(20)]
fn c16_rx_raw_legacy() { rx_body(true) }

// ---- handshake and header-size selection on the real new() ------------------------------------------------
fn new_body(v1: bool) {
    lg_init_concrete();
    let offered: u64 = kani::any();
    kani::assume(offered & (1 << 28) == 0 && (offered & (1 << 32) != 0) == v1);
    let mut t = mt::<NetDev>(DeviceType::Network, offered);
    let mac: [u8; 6] = kani::any();
    t.cfg[..6].copy_from_slice(&mac);
    let k: usize = kani::any();
    kani::assume(k <= 5);
    unsafe { DMA_FAIL_AT = k; D_IND = false; }
    let r = VirtIONetRaw::<THal<Q>, MT<NetDev>, Q>::new(t);
    match r {
        Err(e) => {
            assert!(k >= 1 && k <= 4 && e == Error::DmaError, "C09: construction may only fail with DmaError when an allocation failed");
            assert!(dma_live_count() == 0, "C09: DMA region leaked by a failed construction");
            assert!(ev_find(EV_SET_STATUS, Some(15), 0).is_none(), "C08/C09: DRIVER_OK set by a failed construction (the device is live while the memory of its queues is released)");
        }
        Ok(mut net) => {
            assert!(k == 0 || k == 5, "C09: construction succeeded although an allocation failed");
            let w = check_handshake(offered, SUPPORTED_FEATURES.bits(), 2);
            assert!(net.legacy_header == (w & (1 << 32) == 0), "C08: the 12-byte header must be used exactly when VERSION_1 was negotiated");
            assert!(net.mac_address() == mac, "C13: MAC address from configuration");
            assert!(q_flags(&net.send_queue) == (false, w & (1 << 29) != 0, w & (1 << 33) != 0) && q_flags(&net.recv_queue) == q_flags(&net.send_queue), "C08: queue mechanisms must follow the negotiated features");
            let frame = [0xabu8; 4];
            net.send(&frame).unwrap();
            unsafe { assert!(TX_HDR_LEN == if v1 { 12 } else { 10 } && TX_FRAME_LEN == 4, "C08: header size on the wire"); }
            drop(net);
            unsafe {
                let u0 = ev_find(EV_QUEUE_UNSET, Some(0), 0);
                let u1 = ev_find(EV_QUEUE_UNSET, Some(1), 0);
                let reset = ev_find(EV_RESET_ON_DROP, None, 0);
                let mut i = 0;
                while i < MAXEV {
                    if i < EV_N && EVK[i] == EV_DMA_DEALLOC {
                        assert!((u0.is_some() && u1.is_some() && u0.unwrap() < i && u1.unwrap() < i) || (reset.is_some() && reset.unwrap() < i), "C09: queue memory released while the device was live on that queue");
                    }
                    i += 1;
                }
                assert!(dma_live_count() == 0 && DMA_CNT == 4, "C09: every DMA region must be returned exactly once");
            }
        }
    }
    kani::cover!(k == 2);
    kani::cover!(k == 0);
}

// @harness props=C08,C09,C16 tier=quick timeout=2400
#[kani::proof]
#[kani::unwind(50)]
fn c08_net_new_v1() { new_body(true) }

// @harness props=C08,C09,C16 tier=thorough timeout=2400
#[kani::proof]
#[kani::unwind(50)]
fn c08_net_new_legacy() { new_body(false) }
