// @mount src/device/rng.rs
// @needs q_env
//
// Entropy driver: request/response (C20), handshake (C08), teardown and failed construction (C09), hostile length (C07).
// Functions encoded: VirtIORng::{new, request_entropy}, Drop.
#![allow(unused, unsafe_op_in_unsafe_fn, clippy::all, static_mut_refs)]
use super::*;
use crate::queue::__verif_q_env::*;
use crate::transport::DeviceType;
use crate::Error;

static mut D_LEN: u32 = 0;
static mut D_BYTES: [u8; 4] = [0; 4];
static mut D_SEEN_LEN: u32 = 0;
static mut D_IND: bool = false;
struct RngDev;
impl DevModel for RngDev {
    fn on_notify(q: u16) {
        assert!(q == 0, "C20: notification for a queue the entropy device does not have");
        unsafe {
            if let Some(head) = dev_take::<QUEUE_SIZE>(0) {
                let c = dev_chain::<QUEUE_SIZE>(0, head, D_IND);
                assert!(c.n == 1 && c.write[0], "C20: an entropy request is one device-writable buffer");
                D_SEEN_LEN = c.len[0];
                let mut i = 0;
                while i < 4 {
                    if (i as u32) < c.len[0] && (i as u32) < D_LEN { dev_wr(&c, 0, i, D_BYTES[i]); }
                    i += 1;
                }
                dev_complete::<QUEUE_SIZE>(0, head, D_LEN);
            }
        }
    }
}

// @harness props=C20,C08,C09,C07 tier=quick timeout=1800
#[kani::proof]
#[kani::unwind(50)]
fn c20_rng() {
    lg_init_concrete();
    let offered: u64 = kani::any();
    kani::assume(offered & (1 << 28) == 0);
    let t = mt::<RngDev>(DeviceType::EntropySource, offered);
    let k: usize = kani::any();
    kani::assume(k <= 3);
    unsafe { DMA_FAIL_AT = k; }
    match VirtIORng::<THal<QUEUE_SIZE>, MT<RngDev>>::new(t) {
        Err(e) => {
            assert!(k == 1 || k == 2, "C09: construction failed although no allocation failed");
            check_failed_new(e);
        }
        Ok(mut rng) => {
            assert!(k == 0 || k == 3, "C09: construction succeeded although an allocation failed");
            let w = check_handshake(offered, SUPPORTED_FEATURES.bits(), 1);
            assert!(q_flags(&rng.queue) == (false, w & (1 << 29) != 0, w & (1 << 33) != 0), "C08: queue mechanisms must follow the negotiated features");
            let mut dst = [0u8; 4];
            let n: usize = kani::any();
            kani::assume(n >= 1 && n <= 4);
            unsafe {
                D_LEN = kani::any(); // a hostile device may claim more than the buffer holds
                D_BYTES = kani::any();
            }
            let r = rng.request_entropy(&mut dst[..n]);
            unsafe {
                assert!(D_SEEN_LEN as usize == n, "C20: the request must offer exactly the caller's buffer");
                assert!(r == Ok(D_LEN as usize), "C20: entropy length must be what the device reported");
                let j: usize = kani::any();
                kani::assume(j < 4);
                if j < n && (j as u32) < D_LEN { assert!(dst[j] == D_BYTES[j], "C20: entropy bytes must be the device's"); }
            }
            drop(rng);
            check_teardown(1, 2);
        }
    }
    kani::cover!(k == 2);
    kani::cover!(k == 0 && unsafe { D_LEN } == 3);
}
