// @mount src/queue/owning.rs
//
// Helper: an OwningQueue whose buffers are never touched (manager-level vsock harnesses stub all packet I/O).
#![allow(unused, unsafe_op_in_unsafe_fn, clippy::all)]
use super::*;
pub(crate) fn mk_owning_raw<H: Hal, const SIZE: usize, const B: usize>(queue: VirtQueue<H, SIZE>) -> OwningQueue<H, SIZE, B> {
    OwningQueue { queue, buffers: [NonNull::dangling(); SIZE] }
}
