// @mount src/queue.rs
// @needs q_env
//
// C06 - queue memory layout, registration and release.  Functions encoded: queue_part_sizes,
// VirtQueueLayout::{allocate_legacy, allocate_flexible, *_paddr, *_vaddr}, Dma::{new, paddr, vaddr, drop},
// align_up, pages, VirtQueue::new, drop glue of VirtQueue.
#![allow(unused, unsafe_op_in_unsafe_fn, clippy::all, static_mut_refs)]
use super::__verif_q_env::*;

// ---- layout arithmetic for ALL 16 queue sizes at once (the size is a value here) ---------------------
struct AHal;
static mut A_N: usize = 0;
static mut A_PAGES: [usize; 2] = [0; 2];
static mut A_PADDR: [u64; 2] = [0; 2];
static mut A_DIR: [u8; 2] = [9; 2];
static mut A_AP: [bool; 2] = [false; 2];
static mut A_DEALLOC: [u8; 2] = [0; 2];
static mut A_WORD: u64 = 0;
unsafe impl Hal for AHal {
    fn dma_alloc(pages: usize, d: BufferDirection, ap: bool) -> (PhysAddr, NonNull<u8>) {
        unsafe {
            let i = A_N;
            assert!(i < 2, "C06: more than two DMA allocations for one queue");
            A_N += 1;
            // the platform's contract: page aligned, non-zero, regions do not overlap, no address wrap
            let p: u64 = kani::any();
            kani::assume(p != 0 && p % 4096 == 0 && p < (1u64 << 52) && pages < (1usize << 30));
            if i == 1 {
                let e0 = A_PADDR[0] + 4096 * A_PAGES[0] as u64;
                kani::assume(p >= e0 || p + 4096 * pages as u64 <= A_PADDR[0]);
            }
            A_PAGES[i] = pages;
            A_PADDR[i] = p;
            A_DIR[i] = dir_code(d);
            A_AP[i] = ap;
            (p, NonNull::new(&raw mut A_WORD as *mut u8).unwrap())
        }
    }
    unsafe fn dma_dealloc(p: PhysAddr, _v: NonNull<u8>, pages: usize, ap: bool) -> i32 {
        let i = if p == A_PADDR[0] { 0 } else { 1 };
        assert!(p == A_PADDR[i] && pages == A_PAGES[i] && ap == A_AP[i], "C06: dma_dealloc arguments differ from the allocation");
        A_DEALLOC[i] += 1;
        0
    }
    unsafe fn mmio_phys_to_virt(p: PhysAddr, _s: usize) -> NonNull<u8> { NonNull::new(p as usize as *mut u8).unwrap() }
    unsafe fn share(_b: NonNull<[u8]>, _d: BufferDirection, _a: bool) -> PhysAddr { 0 }
    unsafe fn unshare(_p: PhysAddr, _b: NonNull<[u8]>, _d: BufferDirection, _a: bool) {}
}

// @harness props=C06 tier=quick timeout=600
#[kani::proof]
#[kani::unwind(4)]
fn c06_layout_all_sizes() {
    let n: u16 = kani::any();
    kani::assume(n.is_power_of_two());
    let legacy: bool = kani::any();
    let ap: bool = kani::any();
    let l = if legacy { VirtQueueLayout::<AHal>::allocate_legacy(n, ap) } else { VirtQueueLayout::<AHal>::allocate_flexible(n, ap) };
    assert!(l.is_ok(), "C06: layout allocation failed although the platform allocated");
    let l = l.unwrap();
    let (d, a, u) = (l.descriptors_paddr(), l.driver_area_paddr(), l.device_area_paddr());
    let nn = n as u64;
    assert!(d % 16 == 0 && a % 2 == 0 && u % 4 == 0, "C06: area alignment (16/2/4)");
    let (dl, al, ul) = (16 * nn, 6 + 2 * nn, 6 + 8 * nn);
    assert!(d + dl <= a || a + al <= d, "C06: descriptor and driver areas overlap");
    assert!(a + al <= u || u + ul <= a, "C06: driver and device areas overlap");
    assert!(d + dl <= u || u + ul <= d, "C06: descriptor and device areas overlap");
    unsafe {
        if legacy {
            assert!(A_N == 1 && A_DIR[0] == 2, "C06: legacy layout is one region shared in both directions");
            let end = A_PADDR[0] + 4096 * A_PAGES[0] as u64;
            assert!(d == A_PADDR[0] && a == d + dl, "C06: legacy descriptor/driver area placement");
            assert!(u % 4096 == 0 && u >= a + al && u - (a + al) < 4096, "C06: legacy used ring must start at the next page boundary after the available ring");
            assert!(u + ul <= end, "C06: legacy device area exceeds the allocation");
            // the assertions of the legacy MMIO queue_set can never fire for these addresses
            assert!(a - d == 16 * nn, "C06: legacy queue_set assertion (driver area offset)");
            assert!(u - d == crate::align_up_phys(16 * nn + 2 * (nn + 3)), "C06: legacy queue_set assertion (device area offset)");
            assert!((d / 4096) * 4096 == d, "C06: legacy page frame number");
        } else {
            assert!(A_N == 2 && A_DIR[0] == D2D && A_DIR[1] == D2H, "C06: modern layout uses a driver-to-device and a device-to-driver region");
            assert!(d == A_PADDR[0] && a == d + dl && a + al <= A_PADDR[0] + 4096 * A_PAGES[0] as u64, "C06: descriptor/driver areas outside their region");
            assert!(u == A_PADDR[1] && u + ul <= A_PADDR[1] + 4096 * A_PAGES[1] as u64, "C06: device area outside its region");
        }
        assert!(A_AP[0] == ap && (A_N == 1 || A_AP[1] == ap), "C06: access_platform not passed to dma_alloc");
    }
    // virtual addresses follow the same offsets
    let (dv0, av0, uv0) = (l.descriptors_vaddr().as_ptr() as usize, l.avail_vaddr().as_ptr() as usize, l.used_vaddr().as_ptr() as usize);
    assert!(av0 - dv0 == (a - d) as usize, "C06: virtual and device offsets of the driver area differ");
    if legacy {
        assert!(uv0 - dv0 == (u - d) as usize, "C06: virtual and device offsets of the device area differ");
    }
    kani::cover!(n == 32768 && legacy);
    kani::cover!(n == 1 && !legacy);
    kani::cover!(n == 256 && unsafe { A_N == 2 && A_PADDR[1] < A_PADDR[0] });
    drop(l);
    unsafe {
        assert!(A_DEALLOC[0] == 1 && (A_N == 1 || A_DEALLOC[1] == 1), "C06: every DMA allocation must be returned exactly once");
    }
}

// ---- VirtQueue::new() on the typed DMA Hal: refusals, registration, zeroed rings, INV base case, drop -----
struct QT {
    used: bool,
    max: u32,
    sets: u32,
    q: u16,
    size: u32,
    d: u64,
    a: u64,
    u: u64,
}
impl Transport for QT {
    fn device_type(&self) -> DeviceType { DeviceType::Block }
    fn read_device_features(&mut self) -> u64 { 0 }
    fn write_driver_features(&mut self, _f: u64) {}
    fn max_queue_size(&mut self, _q: u16) -> u32 { self.max }
    fn notify(&mut self, _q: u16) {}
    fn get_status(&self) -> DeviceStatus { DeviceStatus::empty() }
    fn set_status(&mut self, _s: DeviceStatus) {}
    fn set_guest_page_size(&mut self, _g: u32) {}
    fn requires_legacy_layout(&self) -> bool { false }
    fn queue_set(&mut self, q: u16, s: u32, d: PhysAddr, a: PhysAddr, u: PhysAddr) {
        assert!(unsafe { DMA_CNT } == 2, "C06: queue registered before its memory was allocated");
        self.sets += 1;
        self.q = q;
        self.size = s;
        self.d = d;
        self.a = a;
        self.u = u;
    }
    fn queue_unset(&mut self, _q: u16) {}
    fn queue_used(&mut self, _q: u16) -> bool { self.used }
    fn ack_interrupt(&mut self) -> InterruptStatus { InterruptStatus::empty() }
    fn read_config_generation(&self) -> u32 { 0 }
    fn read_config_space<T: FromBytes + IntoBytes>(&self, _o: usize) -> crate::Result<T> { Err(Error::ConfigSpaceMissing) }
    fn write_config_space<T: IntoBytes + Immutable>(&mut self, _o: usize, _v: T) -> crate::Result<()> { Err(Error::ConfigSpaceMissing) }
}

fn new_body<const N: usize>() {
    lg_init();
    let mut t = QT { used: kani::any(), max: kani::any(), sets: 0, q: 0, size: 0, d: 0, a: 0, u: 0 };
    let idx: u16 = kani::any();
    let (ind, ev, ap): (bool, bool, bool) = (kani::any(), kani::any(), kani::any());
    let fail: usize = kani::any();
    kani::assume(fail <= 2);
    unsafe { DMA_FAIL_AT = fail; }
    let r = VirtQueue::<THal<N>, N>::new(&mut t, idx, ind, ev, ap);
    if t.used {
        assert!(matches!(r, Err(Error::AlreadyUsed)), "C06: queue in use must be refused with AlreadyUsed");
    } else if t.max < N as u32 {
        assert!(matches!(r, Err(Error::InvalidParam)), "C06: queue smaller than requested must be refused with InvalidParam");
    }
    if t.used || t.max < N as u32 {
        assert!(unsafe { DMA_CALLS } == 0 && t.sets == 0, "C06: refused creation must not allocate or register anything");
    } else if fail != 0 {
        assert!(matches!(r, Err(Error::DmaError)), "C09: DMA allocation failure must be reported as DmaError");
        assert!(t.sets == 0, "C06: queue registered although its memory could not be allocated");
        assert!(dma_live_count() == 0, "C09: DMA region leaked after a failed construction");
    } else {
        assert!(r.is_ok(), "C06: creation must succeed");
        let q = r.unwrap();
        unsafe {
            assert!(DMA_CNT == 2 && DMA[0].dir == D2D && DMA[1].dir == D2H && DMA[0].pages >= 1 && DMA[1].pages >= 1, "C06: one driver-to-device and one device-to-driver region");
            assert!(DMA[0].ap == ap && DMA[1].ap == ap, "C06: access_platform not passed to dma_alloc");
            assert!(18 * N + 6 <= 4096 * DMA[0].pages && 8 * N + 6 <= 4096 * DMA[1].pages, "C06: regions too small for the queue size");
            assert!(t.sets == 1 && t.q == idx && t.size == N as u32, "C06: exactly one registration with the queue index and size");
            assert!(t.d == DMA[0].paddr && t.a == DMA[0].paddr + 16 * N as u64 && t.u == DMA[1].paddr, "C06: registered addresses are not the areas inside the allocated regions");
            // the driver's own pointers address exactly that memory
            assert!(q.desc.as_ptr() as *mut u8 == DMA[0].vaddr && q.desc.len() == N, "C06: descriptor table pointer");
            assert!(q.avail.as_ptr() as *mut u8 == DMA[0].vaddr.add(16 * N) && q.used.as_ptr() as *mut u8 == DMA[1].vaddr, "C06: ring pointers");
            let m0 = &*(DMA[0].vaddr as *const D2DMem<N>);
            let m1 = &*(DMA[1].vaddr as *const D2HMem<N>);
            assert!(m0.avail.idx.load(Ordering::Relaxed) == 0 && m0.avail.flags.load(Ordering::Relaxed) == 0 && m0.avail.used_event.load(Ordering::Relaxed) == 0, "C06: available ring not zeroed");
            assert!(m1.used.idx.load(Ordering::Relaxed) == 0 && m1.used.flags.load(Ordering::Relaxed) == 0, "C06: used ring not zeroed");
            let mut i = 0;
            while i < N {
                assert!(m0.avail.ring[i] == 0 && m1.used.ring[i].id == 0 && m1.used.ring[i].len == 0, "C06: ring entries not zeroed");
                assert!(m0.desc[i].addr == 0 && m0.desc[i].len == 0 && m0.desc[i].flags.bits() == 0, "C06: descriptor table not clean");
                i += 1;
            }
        }
        // INV base case: everything free, indices zero, flags as requested
        let g = Ghost::<N> { owner: [FREE; N], head: [0; K], cnt: [0; K], nbuf: [0; K], n_in: [0; K], indirect: [false; K], eb: [0; K] };
        assert!(inv_direct(&q, &g), "C01: new() does not establish the representation invariant");
        assert!(q.avail_idx == 0 && q.last_used_idx == 0 && q.queue_idx == idx, "C06: initial indices");
        assert!(q.indirect == ind && q.event_idx == ev && q.access_platform == ap, "C08: queue flags differ from the ones requested");
        drop(q);
        unsafe {
            assert!(DMA[0].deallocs == 1 && DMA[1].deallocs == 1 && !DMA[0].live && !DMA[1].live, "C06: every DMA allocation must be returned exactly once when the queue goes away");
        }
    }
    kani::cover!(!t.used && t.max == N as u32 && fail == 0);
    kani::cover!(!t.used && t.max >= N as u32 && fail == 2);
    kani::cover!(t.used && t.max == 0);
}

// @harness props=C06,C01,C09 tier=quick timeout=600
#[kani::proof]
#[kani::unwind(18)]
fn c06_new_4() { new_body::<4>() }

// @harness props=C06,C01,C09 tier=quick timeout=600
#[kani::proof]
#[kani::unwind(18)]
fn c06_new_1() { new_body::<1>() }

// @harness props=C06,C01,C09 tier=thorough timeout=1200
#[kani::proof]
#[kani::unwind(18)]
fn c06_new_2() { new_body::<2>() }

// @harness props=C06,C01,C09 tier=thorough timeout=1200
#[kani::proof]
#[kani::unwind(18)]
fn c06_new_8() { new_body::<8>() }

// @harness props=C06,C01,C09 tier=quick timeout=1200
#[kani::proof]
#[kani::unwind(18)]
fn c06_new_16() { new_body::<16>() }

// @harness props=C06,C01,C09 tier=thorough timeout=3600
#[kani::proof]
#[kani::unwind(34)]
fn c06_new_32() { new_body::<32>() }

// ---- legacy layout through new(): byte-addressable region, smallest sizes -------------------------------
struct LT {
    sets: u32,
    d: u64,
    a: u64,
    u: u64,
}
impl Transport for LT {
    fn device_type(&self) -> DeviceType { DeviceType::Block }
    fn read_device_features(&mut self) -> u64 { 0 }
    fn write_driver_features(&mut self, _f: u64) {}
    fn max_queue_size(&mut self, _q: u16) -> u32 { 64 }
    fn notify(&mut self, _q: u16) {}
    fn get_status(&self) -> DeviceStatus { DeviceStatus::empty() }
    fn set_status(&mut self, _s: DeviceStatus) {}
    fn set_guest_page_size(&mut self, _g: u32) {}
    fn requires_legacy_layout(&self) -> bool { true }
    fn queue_set(&mut self, _q: u16, _s: u32, d: PhysAddr, a: PhysAddr, u: PhysAddr) {
        self.sets += 1;
        self.d = d;
        self.a = a;
        self.u = u;
    }
    fn queue_unset(&mut self, _q: u16) {}
    fn queue_used(&mut self, _q: u16) -> bool { false }
    fn ack_interrupt(&mut self) -> InterruptStatus { InterruptStatus::empty() }
    fn read_config_generation(&self) -> u32 { 0 }
    fn read_config_space<T: FromBytes + IntoBytes>(&self, _o: usize) -> crate::Result<T> { Err(Error::ConfigSpaceMissing) }
    fn write_config_space<T: IntoBytes + Immutable>(&mut self, _o: usize, _v: T) -> crate::Result<()> { Err(Error::ConfigSpaceMissing) }
}

// @harness props=C06 tier=quick timeout=1200
#[kani::proof]
#[kani::unwind(6)]
fn c06_new_legacy_2() {
    const N: usize = 2;
    lg_init();
    let mut t = LT { sets: 0, d: 0, a: 0, u: 0 };
    let fail: usize = kani::any();
    kani::assume(fail <= 1);
    unsafe { DMA_FAIL_AT = fail; }
    let r = VirtQueue::<THal<N>, N>::new(&mut t, 0, false, kani::any(), false);
    if fail == 1 {
        assert!(matches!(r, Err(Error::DmaError)) && t.sets == 0, "C09: DMA allocation failure must be reported as DmaError");
    } else {
        let q = r.unwrap();
        unsafe {
            assert!(DMA_CNT == 1 && DMA[0].dir == 2 && DMA[0].pages == 2, "C06: legacy layout is one two-page region shared in both directions");
            assert!(t.sets == 1 && t.d == DMA[0].paddr && t.a == t.d + 32 && t.u == t.d + 4096, "C06: legacy registration addresses");
            assert!(q.desc.as_ptr() as *mut u8 == DMA[0].vaddr && q.avail.as_ptr() as *mut u8 == DMA[0].vaddr.add(32) && q.used.as_ptr() as *mut u8 == DMA[0].vaddr.add(4096), "C06: legacy ring pointers");
        }
        assert!(!q.can_pop() && q.available_desc() == N, "C06: fresh queue state");
        drop(q);
        unsafe { assert!(DMA[0].deallocs == 1, "C06: legacy region must be returned exactly once"); }
    }
    kani::cover!(fail == 0);
    kani::cover!(fail == 1);
}
