// @mount src/device/socket/vsock.rs
// @needs q_env
//
// Socket driver level (C17 packet contents and credit arithmetic, C18 packet classification, C07 hostile
// receive buffers, C08/C09 handshake and teardown).  Functions encoded: ConnectionInfo::{peer_free,
// done_forwarding, update_for_event, new_header}, VirtIOSocket::{new, connect, accept, send, credit_update,
// shutdown, force_close, request_credit, check_peer_buffer_is_sufficient, poll, send_packet_to_tx_queue},
// VsockEvent::{from_header, matches_connection}, read_header_and_body.
#![allow(unused, unsafe_op_in_unsafe_fn, clippy::all, static_mut_refs)]
use super::*;
pub use crate::queue::__verif_q_env::*;
use crate::Error;

pub const RXB: usize = 64;
pub static mut TX_N: usize = 0;
pub static mut TX_HDR: [[u8; 44]; 2] = [[0; 44]; 2];
pub static mut TX_PAY_LEN: [u32; 2] = [0; 2];
pub static mut TX_PAY: [[u8; 8]; 2] = [[0; 8]; 2];

pub struct VsDev;
impl DevModel for VsDev {
    fn on_notify(q: u16) {
        unsafe {
            if q == TX_QUEUE_IDX {
                if let Some(head) = dev_take::<QUEUE_SIZE>(1) {
                    let c = dev_chain::<QUEUE_SIZE>(1, head, false);
                    assert!(c.n >= 1 && c.n <= 2 && !c.write[0] && c.len[0] == 44 && (c.n == 1 || !c.write[1]), "C17: a packet is a 44-byte header optionally followed by the payload, all device-readable");
                    let i = TX_N;
                    assert!(i < 2, "C17: more packets sent than the operation allows");
                    let mut k = 0;
                    while k < 44 {
                        TX_HDR[i][k] = dev_rd(&c, 0, k);
                        k += 1;
                    }
                    TX_PAY_LEN[i] = if c.n == 2 { c.len[1] } else { 0 };
                    k = 0;
                    while k < 8 {
                        if c.n == 2 && (k as u32) < c.len[1] { TX_PAY[i][k] = dev_rd(&c, 1, k); }
                        k += 1;
                    }
                    TX_N += 1;
                    dev_complete::<QUEUE_SIZE>(1, head, 0);
                }
            }
        }
    }
}
pub type Sock = VirtIOSocket<THal<QUEUE_SIZE>, MT<VsDev>, RXB>;

/// driver state built directly: three queues registered, receive queue fully stocked
pub fn mk_sock(cid: u64) -> Sock {
    lg_init_concrete();
    let mut t = mt::<VsDev>(DeviceType::Socket, 0);
    unsafe { DRIVER_OK_SEEN = true; }
    let rxq = VirtQueue::new(&mut t, RX_QUEUE_IDX, false, false, false).unwrap();
    let tx = VirtQueue::new(&mut t, TX_QUEUE_IDX, false, false, false).unwrap();
    let event = VirtQueue::new(&mut t, EVENT_QUEUE_IDX, false, false, false).unwrap();
    let rx = OwningQueue::new(rxq).unwrap();
    VirtIOSocket { transport: t, rx, tx, event, guest_cid: cid }
}
/// socket whose queues exist but are never used (all packet I/O stubbed by the caller)
pub fn mk_sock_stubbed(cid: u64) -> Sock {
    lg_init_concrete();
    let mut t = mt::<VsDev>(DeviceType::Socket, 0);
    let rxq = VirtQueue::new(&mut t, RX_QUEUE_IDX, false, false, false).unwrap();
    let tx = VirtQueue::new(&mut t, TX_QUEUE_IDX, false, false, false).unwrap();
    let event = VirtQueue::new(&mut t, EVENT_QUEUE_IDX, false, false, false).unwrap();
    VirtIOSocket { transport: t, rx: mk_owning_raw(rxq), tx, event, guest_cid: cid }
}
pub fn any_info() -> ConnectionInfo {
    ConnectionInfo {
        dst: VsockAddr { cid: kani::any(), port: kani::any() },
        src_port: kani::any(),
        peer_buf_alloc: kani::any(),
        peer_fwd_cnt: kani::any(),
        tx_cnt: kani::any(),
        buf_alloc: kani::any(),
        fwd_cnt: kani::any(),
        has_pending_credit_request: kani::any(),
    }
}
pub fn hdr_u16(h: &[u8; 44], o: usize) -> u16 { u16::from_le_bytes([h[o], h[o + 1]]) }
pub fn hdr_u32(h: &[u8; 44], o: usize) -> u32 { u32::from_le_bytes([h[o], h[o + 1], h[o + 2], h[o + 3]]) }
pub fn hdr_u64(h: &[u8; 44], o: usize) -> u64 { (hdr_u32(h, o) as u64) | ((hdr_u32(h, o + 4) as u64) << 32) }
/// every packet carries correct addressing, stream type and the driver's current buffer allocation / forward count
pub fn check_hdr(h: &[u8; 44], cid: u64, ci: &ConnectionInfo, op: u16, len: u32, flags: u32) {
    assert!(hdr_u64(h, 0) == cid && hdr_u64(h, 8) == ci.dst.cid, "C17: packet source/destination CID");
    assert!(hdr_u32(h, 16) == ci.src_port && hdr_u32(h, 20) == ci.dst.port, "C17: packet source/destination port");
    assert!(hdr_u32(h, 24) == len, "C17: packet payload length field");
    assert!(hdr_u16(h, 28) == 1, "C17: packet type must be STREAM");
    assert!(hdr_u16(h, 30) == op, "C17: packet operation code");
    assert!(hdr_u32(h, 32) == flags, "C17: packet flags");
    assert!(hdr_u32(h, 36) == ci.buf_alloc && hdr_u32(h, 40) == ci.fwd_cnt, "C17: packet must carry the driver's current buffer allocation and forwarded-byte count");
}

// ---- credit arithmetic on free-running 32-bit counters -------------------------------------------------------
// @harness props=C17 tier=quick timeout=600
#[kani::proof]
#[kani::unwind(4)]
fn c17_credit_arith() {
    let mut ci = any_info();
    let inflight = ci.tx_cnt.wrapping_sub(ci.peer_fwd_cnt);
    let expect = ci.peer_buf_alloc.saturating_sub(inflight);
    assert!(ci.peer_free() == expect, "C17: peer free space must be buf_alloc - (tx_cnt - peer_fwd_cnt) on free-running 32-bit counters, clamped at 0");
    let n: usize = kani::any();
    kani::assume(n <= 0x10000);
    let before = ci.fwd_cnt;
    ci.done_forwarding(n);
    assert!(ci.fwd_cnt == before.wrapping_add(n as u32), "C17: forwarded-byte counter must wrap modulo 2^32");
    kani::cover!(ci.tx_cnt < ci.peer_fwd_cnt);
    kani::cover!(before > 0xffff_0000 && n > 0xffff);
}

// ---- data send under credit --------------------------------------------------------------------------------
// The payload length is an instantiation parameter (a symbolic slice length reaching the queue's descriptor
// writes and the reference device's copy costs 4x the time and memory); counters, credit, addresses, bytes symbolic.
// @harness props=C17 tier=quick timeout=1800
#[kani::proof]
#[kani::unwind(46)]
fn c17_socket_send_8() { send_body(8) }

// @harness props=C17 tier=quick timeout=1800
#[kani::proof]
#[kani::unwind(46)]
fn c17_socket_send_3() { send_body(3) }

// @harness props=C17 tier=thorough timeout=1800
#[kani::proof]
#[kani::unwind(46)]
fn c17_socket_send_1() { send_body(1) }

// @harness props=C17 tier=thorough timeout=1800
#[kani::proof]
#[kani::unwind(46)]
fn c17_socket_send_5() { send_body(5) }

fn send_body(n: usize) {
    let cid: u64 = kani::any();
    let mut s = mk_sock_stubbed(cid) /* receive queue not stocked: send never touches it */;
    let mut ci = any_info();
    let ci0 = ci.clone();
    let data: [u8; 8] = kani::any();
    let free = ci0.peer_buf_alloc.saturating_sub(ci0.tx_cnt.wrapping_sub(ci0.peer_fwd_cnt));
    let r = s.send(&data[..n], &mut ci);
    unsafe {
        if n as u32 <= free {
            assert!(r.is_ok(), "C17: a send that fits the peer's advertised free space must be accepted");
            assert!(TX_N == 1, "C17: exactly one packet per accepted send");
            check_hdr(&TX_HDR[0], cid, &ci0, 5, n as u32, 0);
            assert!(TX_PAY_LEN[0] as usize == n, "C17: payload length on the wire");
            let k: usize = kani::any();
            kani::assume(k < 8);
            if k < n { assert!(TX_PAY[0][k] == data[k], "C17: payload bytes on the wire differ from the caller's"); }
            assert!(ci.tx_cnt == ci0.tx_cnt.wrapping_add(n as u32), "C17: transmit counter must advance by the payload length modulo 2^32");
            assert!(ci.has_pending_credit_request == ci0.has_pending_credit_request, "C17: pending credit request flag changed by a successful send");
        } else {
            assert!(r == Err(SocketError::InsufficientBufferSpaceInPeer.into()), "C17: payload in flight must never exceed the free space the peer last advertised");
            assert!(ci.tx_cnt == ci0.tx_cnt, "C17: refused send must not count as transmitted");
            if ci0.has_pending_credit_request {
                assert!(TX_N == 0, "C17: only a single credit request may be outstanding");
            } else {
                assert!(TX_N == 1, "C17: a refused send must issue one credit request");
                check_hdr(&TX_HDR[0], cid, &ci0, 7, 0, 0);
                assert!(TX_PAY_LEN[0] == 0, "C17: credit request carries no payload");
            }
            assert!(ci.has_pending_credit_request, "C17: credit request must be remembered as pending");
        }
    }
    core::mem::forget(s);
    kani::cover!(r.is_ok() && ci0.tx_cnt.checked_add(n as u32).is_none());   // transmit counter wraps
    kani::cover!(r.is_ok() && ci0.tx_cnt < ci0.peer_fwd_cnt);        // counter already wrapped relative to the peer's
    kani::cover!(r.is_err() && !ci0.has_pending_credit_request);
}

// ---- control packets ---------------------------------------------------------------------------------------------
// @harness props=C17 tier=quick timeout=1800
#[kani::proof]
#[kani::unwind(46)]
fn c17_socket_ctrl_packets() {
    let cid: u64 = kani::any();
    let mut s = mk_sock_stubbed(cid) /* receive queue not stocked: control packets never touch it */;
    let ci = any_info();
    let op: u8 = kani::any();
    kani::assume(op < 5);
    let (r, code, flags) = match op {
        0 => (s.connect(&ci), 1u16, 0u32),
        1 => (s.accept(&ci), 2, 0),
        2 => (s.credit_update(&ci), 6, 0),
        3 => (s.shutdown(&ci), 4, 3),
        _ => (s.force_close(&ci), 3, 0),
    };
    assert!(r.is_ok(), "C17: control packet send");
    unsafe {
        assert!(TX_N == 1 && TX_PAY_LEN[0] == 0, "C17: one header-only packet per control operation");
        check_hdr(&TX_HDR[0], cid, &ci, code, 0, flags);
    }
    core::mem::forget(s);
    kani::cover!(op == 3);
    kani::cover!(op == 0 && ci.fwd_cnt == 0xffff_ffff);
}

// ---- classification of EVERY 44-byte header -------------------------------------------------------------------
// @harness props=C18 tier=quick timeout=900
#[kani::proof]
#[kani::unwind(46)]
fn c18_classify() {
    let bytes: [u8; 44] = kani::any();
    let h = VirtioVsockHdr::read_from_bytes(&bytes[..]).unwrap();
    let r = VsockEvent::from_header(&h);
    let op = hdr_u16(&bytes, 30);
    let len = hdr_u32(&bytes, 24);
    match op {
        0 => assert!(r == Err(SocketError::InvalidOperation.into()), "C18: operation 0 is invalid"),
        1 | 2 | 3 | 4 | 6 | 7 => {
            if len != 0 {
                assert!(r == Err(SocketError::UnexpectedDataInPacket.into()), "C18: control packets must not carry data");
            } else {
                let e = r.clone().unwrap();
                let want = match op {
                    1 => VsockEventType::ConnectionRequest,
                    2 => VsockEventType::Connected,
                    3 => VsockEventType::Disconnected { reason: DisconnectReason::Reset },
                    4 => VsockEventType::Disconnected { reason: DisconnectReason::Shutdown },
                    6 => VsockEventType::CreditUpdate,
                    _ => VsockEventType::CreditRequest,
                };
                assert!(e.event_type == want, "C18: packet operation classified wrongly");
            }
        }
        5 => assert!(r.clone().unwrap().event_type == VsockEventType::Received { length: len as usize }, "C18: data packet classification"),
        _ => assert!(r == Err(SocketError::UnknownOperation(op).into()), "C18: unknown operations must be rejected"),
    }
    if let Ok(e) = &r {
        assert!(e.source == VsockAddr { cid: hdr_u64(&bytes, 0), port: hdr_u32(&bytes, 16) } && e.destination == VsockAddr { cid: hdr_u64(&bytes, 8), port: hdr_u32(&bytes, 20) }, "C18: packet addresses decoded wrongly");
        assert!(e.buffer_status.buffer_allocation == hdr_u32(&bytes, 36) && e.buffer_status.forward_count == hdr_u32(&bytes, 40), "C17: peer credit fields decoded wrongly");
        // a packet belongs to a connection exactly when peer address, our CID and our port all match
        let ci = any_info();
        let gcid: u64 = kani::any();
        assert!(e.matches_connection(&ci, gcid) == (e.source == ci.dst && e.destination.cid == gcid && e.destination.port == ci.src_port), "C18: connection matching must use peer address and local CID/port");
    }
    kani::cover!(r.is_ok() && op == 5 && len > 1000);
    kani::cover!(r.is_err() && op == 4);
    kani::cover!(op > 7);
}

// ---- receive path: whatever the device writes (C07) and well-formed packets (C17/C19) ---------------------------------
// @harness props=C07,C17,C19 tier=quick timeout=1800 panic=clean
#[kani::proof]
#[kani::unwind(60)]
fn c07_socket_poll_any_packet() {
    let mut s = mk_sock(kani::any());
    // the device fills the first posted buffer with arbitrary bytes and reports an arbitrary used length
    let head = dev_take::<QUEUE_SIZE>(0).unwrap();
    let c = dev_chain::<QUEUE_SIZE>(0, head, false);
    assert!(c.n == 1 && c.write[0] && c.len[0] as usize == RXB, "C19: posted receive buffer");
    let pkt: [u8; 56] = kani::any();
    let mut i = 0;
    while i < 56 {
        unsafe { dev_wr(&c, 0, i, pkt[i]); }
        i += 1;
    }
    let used: u32 = kani::any();
    dev_complete::<QUEUE_SIZE>(0, head, used);
    let mut body_len = usize::MAX;
    let mut b0 = 0u8;
    let r = s.poll(|e, body| {
        body_len = body.len();
        if body.len() > 0 { b0 = body[0]; }
        Ok(Some(e))
    });
    let hdr: [u8; 44] = core::array::from_fn(|k| pkt[k]);
    let plen = hdr_u32(&hdr, 24) as usize;
    if body_len != usize::MAX {
        // the handler ran: the body is exactly the bytes after the header, inside what the device reported
        assert!(used as usize <= RXB && 44 + body_len <= used as usize, "C07: slice handed to the caller exceeds the used part of its backing buffer");
        assert!(body_len == plen, "C17: body handed out must have the length the packet header states");
        if body_len > 0 && body_len <= 12 { assert!(b0 == pkt[44], "C17: body bytes"); }
    }
    if used as usize >= 44 && used as usize <= RXB && 44 + plen <= used as usize && hdr_u16(&hdr, 30) == 5 {
        assert!(r.is_ok() && body_len == plen, "C17: a well-formed data packet must be delivered");
    }
    // whatever happened, the buffer is back with the device (unless the device named a foreign token: clean error)
    assert!(q_num_used(&s.tx) == 0, "C07: transmit queue untouched by a receive");
    core::mem::forget(s);
    kani::cover!(r.is_ok() && body_len == 8);
    kani::cover!(r.is_err() && used < 44);
    kani::cover!(r.is_err() && used as usize > RXB);
}

// ---- handshake, teardown, failed construction -----------------------------------------------------------------------
// @harness props=C08,C09 tier=quick timeout=2400
#[kani::proof]
#[kani::unwind(50)]
fn c08_socket_new() {
    lg_init_concrete();
    let offered: u64 = kani::any();
    kani::assume(offered & (1 << 28) == 0);
    let mut t = mt::<VsDev>(DeviceType::Socket, offered);
    let cid: u64 = kani::any();
    t.cfg[..8].copy_from_slice(&cid.to_le_bytes());
    let k: usize = kani::any();
    kani::assume(k <= 7);
    unsafe { DMA_FAIL_AT = k; }
    let r = VirtIOSocket::<THal<QUEUE_SIZE>, MT<VsDev>, RXB>::new(t);
    match r {
        Err(e) => {
            assert!(k >= 1 && k <= 6 && e == Error::DmaError, "C09: construction may only fail with DmaError when an allocation failed");
            assert!(dma_live_count() == 0, "C09: DMA region leaked by a failed construction");
            assert!(ev_find(EV_SET_STATUS, Some(15), 0).is_none(), "C08/C09: DRIVER_OK set by a failed construction (the device is live while the memory of its queues is released)");
        }
        Ok(s) => {
            assert!(k == 0 || k == 7, "C09: construction succeeded although an allocation failed");
            let w = check_handshake(offered, SUPPORTED_FEATURES.bits(), 3);
            assert!(s.guest_cid() == cid, "C13: guest CID from configuration");
            assert!(q_flags(&s.tx) == (false, w & (1 << 29) != 0, w & (1 << 33) != 0), "C08: queue mechanisms must follow the negotiated features");
            drop(s);
            unsafe {
                let reset = ev_find(EV_RESET_ON_DROP, None, 0);
                let u = [ev_find(EV_QUEUE_UNSET, Some(0), 0), ev_find(EV_QUEUE_UNSET, Some(1), 0), ev_find(EV_QUEUE_UNSET, Some(2), 0)];
                let mut i = 0;
                while i < MAXEV {
                    if i < EV_N && EVK[i] == EV_DMA_DEALLOC {
                        let after_unset = u[0].is_some() && u[1].is_some() && u[2].is_some() && u[0].unwrap() < i && u[1].unwrap() < i && u[2].unwrap() < i;
                        assert!(after_unset || (reset.is_some() && reset.unwrap() < i), "C09: queue memory released while the device was live on that queue");
                    }
                    i += 1;
                }
                assert!(dma_live_count() == 0 && DMA_CNT == 6, "C09: every DMA region must be returned exactly once");
            }
        }
    }
    kani::cover!(k == 4);
    kani::cover!(k == 0);
}

// accessors for the manager-level harness module
pub fn ci_fwd_cnt(c: &ConnectionInfo) -> u32 { c.fwd_cnt }
pub fn ci_pending(c: &ConnectionInfo) -> bool { c.has_pending_credit_request }
pub fn ci_counters(c: &ConnectionInfo) -> (u32, u32, u32) { (c.peer_buf_alloc, c.peer_fwd_cnt, c.tx_cnt) }
pub fn any_info_for(peer: VsockAddr, port: u32, buf_alloc: u32) -> ConnectionInfo {
    ConnectionInfo { dst: peer, src_port: port, buf_alloc, ..any_info() }
}
