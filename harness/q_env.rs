// @mount src/queue.rs
// @needs o_env
//
// Environment layer for every queue-level and driver-level harness (child module of crate::queue,
// so it sees the private fields of VirtQueue / Descriptor / AvailRing / UsedRing).
//
//  * LHal      - ledger Hal: share()/unshare() bookkeeping with distinct device addresses (C04 oracle)
//  * Backing<N>- typed backing store for descriptor table, available ring and used ring
//  * mk_queue  - VirtQueue built by struct literal over a Backing (initialisation skipped; C06 checks new())
//  * Ghost / inv_* - the representation invariant INV of DESIGN.md §4.2 as an executable predicate, used both
//                as assumption (arbitrary pre-state) and as assertion (post-state)
#![allow(unused, unsafe_op_in_unsafe_fn, clippy::all, static_mut_refs, missing_docs)]

pub use super::*;
pub(crate) use super::owning::__verif_o_env::mk_owning_raw;
pub use crate::hal::{BufferDirection, Hal, PhysAddr};
pub use crate::transport::{DeviceStatus, DeviceType, InterruptStatus, Transport};
pub use core::ptr::NonNull;
pub use core::sync::atomic::{AtomicU16, Ordering};
pub use zerocopy::{FromBytes, FromZeros, Immutable, IntoBytes};

// ------------------------------------------------------------------------------------------------
// Share ledger
pub const MAXSH: usize = 40;
pub const MAXSTEP: usize = 16; // ledger entries the queue step harnesses iterate over
pub const MAXPRE: usize = 8; // ledger entries a havocked pre-state may hold
pub const D2D: u8 = 0; // driver -> device (device-readable)
pub const D2H: u8 = 1; // device -> driver (device-writable)

#[derive(Clone, Copy)]
pub struct Sh {
    pub ptr: usize,
    pub len: usize,
    pub dir: u8,
    pub ap: bool,
    pub live: bool,
    pub unshares: u8,
}
pub const SH0: Sh = Sh { ptr: 0, len: 0, dir: 0, ap: false, live: false, unshares: 0 };
pub static mut LG: [Sh; MAXSH] = [SH0; MAXSH];
pub static mut LG_N: usize = 0;
/// Base of the device-address space handed out by share(); symbolic, page aligned.
pub static mut LG_SALT: u64 = 0x4000_0000;
pub static mut DMA_N: usize = 0;

pub fn dir_code(d: BufferDirection) -> u8 {
    match d {
        BufferDirection::DriverToDevice => D2D,
        BufferDirection::DeviceToDriver => D2H,
        BufferDirection::Both => 2,
    }
}

/// Device address of ledger entry i: distinct per entry, never equal to a driver virtual address
/// relation the driver could exploit (the salt is arbitrary).
pub fn lg_paddr(i: usize) -> u64 {
    unsafe { LG_SALT + (i as u64) * 0x1_0000 }
}

/// concrete device-address base (driver-level harnesses: the reference device translates addresses often)
pub fn lg_init_concrete() {
    unsafe {
        LG_SALT = 0x4000_0000;
        LG_N = 0;
    }
}
pub fn lg_init() {
    let salt: u64 = kani::any();
    kani::assume(salt >= 0x1000_0000 && salt < (1u64 << 44) && salt % 0x1000 == 0);
    unsafe {
        LG_SALT = salt;
        LG_N = 0;
    }
}

/// Look a device address up among the live shares (closed form: addresses are salt + i * 64 KiB).
pub fn lg_find_live(p: u64) -> Option<usize> {
    unsafe {
        if p < LG_SALT || (p - LG_SALT) % 0x1_0000 != 0 {
            return None;
        }
        let i = ((p - LG_SALT) / 0x1_0000) as usize;
        if i < LG_N && i < MAXSH && LG[i].live { Some(i) } else { None }
    }
}

pub struct LHal;
static mut DUMMY_PAGE: [u8; 8] = [0; 8];

unsafe impl Hal for LHal {
    fn dma_alloc(_pages: usize, _d: BufferDirection, _a: bool) -> (PhysAddr, NonNull<u8>) {
        unsafe {
            DMA_N += 1;
            (0x10000 * (DMA_N as u64), NonNull::new(DUMMY_PAGE.as_mut_ptr()).unwrap())
        }
    }
    unsafe fn dma_dealloc(_p: PhysAddr, _v: NonNull<u8>, _pages: usize, _a: bool) -> i32 {
        0
    }
    unsafe fn mmio_phys_to_virt(p: PhysAddr, _s: usize) -> NonNull<u8> {
        NonNull::new(p as usize as *mut u8).unwrap()
    }
    unsafe fn share(b: NonNull<[u8]>, d: BufferDirection, ap: bool) -> PhysAddr {
        lg_share(b, d, ap)
    }
    unsafe fn unshare(p: PhysAddr, b: NonNull<[u8]>, d: BufferDirection, ap: bool) {
        lg_unshare(p, b, d, ap)
    }
}

/// pointer-typed copy of the shared ranges, used only by the reference devices of driver-level harnesses
pub static mut LGP: [*mut u8; MAXSH] = [core::ptr::null_mut(); MAXSH];
pub unsafe fn lg_share(b: NonNull<[u8]>, d: BufferDirection, ap: bool) -> PhysAddr {
    let i = LG_N;
    assert!(i < MAXSH, "harness: share ledger full");
    assert!(dir_code(d) != 2, "C04: buffer shared with direction Both");
    LGP[i] = b.as_ptr() as *mut u8;
    LG[i] = Sh { ptr: b.as_ptr() as *mut u8 as usize, len: b.len(), dir: dir_code(d), ap, live: true, unshares: 0 };
    LG_N = i + 1;
    lg_paddr(i)
}
pub unsafe fn lg_unshare(p: PhysAddr, b: NonNull<[u8]>, d: BufferDirection, ap: bool) {
    let known = p >= LG_SALT && (p - LG_SALT) % 0x1_0000 == 0 && ((p - LG_SALT) / 0x1_0000) < LG_N as u64 && ((p - LG_SALT) / 0x1_0000) < MAXSH as u64;
    assert!(known, "C04/C07: unshare of a device address that share() never returned");
    let i = ((p - LG_SALT) / 0x1_0000) as usize;
    assert!(LG[i].live, "C04/C07: buffer unshared twice (its device address was already unshared)");
    assert!(LG[i].ptr == b.as_ptr() as *mut u8 as usize, "C04: unshare buffer pointer differs from the one shared");
    assert!(LG[i].len == b.len(), "C04: unshare buffer length differs from the one shared");
    assert!(LG[i].dir == dir_code(d), "C04: unshare direction differs from share direction");
    assert!(LG[i].ap == ap, "C04: unshare access_platform differs from share");
    LG[i].live = false;
    LG[i].unshares += 1;
}
/// Translate a device address back to the driver pointer it was shared from (reference devices only).
pub fn lg_dev_ptr(p: u64) -> *mut u8 {
    let f = lg_find_live(p);
    assert!(f.is_some(), "C04: device was given an address that is not a live share");
    unsafe { LGP[f.unwrap()] }
}
pub fn lg_dev_dir(p: u64) -> u8 {
    let f = lg_find_live(p);
    assert!(f.is_some(), "C04: device was given an address that is not a live share");
    unsafe { LG[f.unwrap()].dir }
}
pub fn lg_dev_len(p: u64) -> usize {
    let f = lg_find_live(p);
    assert!(f.is_some(), "C04: device was given an address that is not a live share");
    unsafe { LG[f.unwrap()].len }
}

// ------------------------------------------------------------------------------------------------
// Event log (ordering of transport calls, DMA releases, frees) and typed DMA Hal
pub const MAXEV: usize = 48;
pub const EV_SET_STATUS: u8 = 1; // arg = status bits
pub const EV_READ_FEATURES: u8 = 2;
pub const EV_WRITE_FEATURES: u8 = 3; // arg = features
pub const EV_QUEUE_SET: u8 = 4; // arg = queue
pub const EV_QUEUE_UNSET: u8 = 5; // arg = queue
pub const EV_NOTIFY: u8 = 6; // arg = queue
pub const EV_DMA_ALLOC: u8 = 7; // arg = dma index
pub const EV_DMA_DEALLOC: u8 = 8; // arg = dma index
pub const EV_RESET_ON_DROP: u8 = 9;
pub const EV_HEAP_FREE: u8 = 10; // arg = pointer
pub const EV_GUEST_PAGE_SIZE: u8 = 11;
pub static mut EVK: [u8; MAXEV] = [0; MAXEV];
pub static mut EVA: [u64; MAXEV] = [0; MAXEV];
pub static mut EV_N: usize = 0;
pub fn ev_push(k: u8, a: u64) {
    unsafe {
        assert!(EV_N < MAXEV, "harness: event log full");
        EVK[EV_N] = k;
        EVA[EV_N] = a;
        EV_N += 1;
    }
}
/// index of the first event of kind k (with argument a, if given) at or after `from`
pub fn ev_find(k: u8, a: Option<u64>, from: usize) -> Option<usize> {
    let mut i = 0;
    let mut r = None;
    while i < MAXEV {
        unsafe {
            if r.is_none() && i >= from && i < EV_N && EVK[i] == k && (a.is_none() || a == Some(EVA[i])) {
                r = Some(i);
            }
        }
        i += 1;
    }
    r
}
pub fn ev_count(k: u8) -> usize {
    let mut i = 0;
    let mut c = 0;
    while i < MAXEV {
        unsafe {
            if i < EV_N && EVK[i] == k { c += 1; }
        }
        i += 1;
    }
    c
}

pub const MAXDMA: usize = 12;
#[derive(Clone, Copy)]
pub struct DmaRec {
    pub paddr: u64,
    pub vaddr: *mut u8,
    pub pages: usize,
    pub dir: u8,
    pub ap: bool,
    pub live: bool,
    pub deallocs: u8,
}
pub const DMA0: DmaRec = DmaRec { paddr: 0, vaddr: core::ptr::null_mut(), pages: 0, dir: 0, ap: false, live: false, deallocs: 0 };
pub static mut DMA: [DmaRec; MAXDMA] = [DMA0; MAXDMA];
pub static mut DMA_CNT: usize = 0;
/// 0 = allocations never fail; k = the k-th dma_alloc call returns (0, dangling)
pub static mut DMA_FAIL_AT: usize = 0;
pub static mut DMA_CALLS: usize = 0;
/// the first DMA_RING_ALLOCS dma_alloc *calls* are queue rings (typed); later single-page ones are raw buffers
/// (compared with the call counter, which is concrete, not with the symbolic success counter)
pub static mut DMA_RING_ALLOCS: usize = usize::MAX;
/// device addresses currently attached to a device resource as backing (a release of one of them is a C20 violation)
pub static mut DMA_PROTECTED: [u64; 2] = [0; 2];

#[repr(C, align(16))]
pub struct D2DMem<const N: usize> {
    pub desc: [Descriptor; N],
    pub avail: AvailRing<N>,
}
#[repr(C, align(16))]
pub struct D2HMem<const N: usize> {
    pub used: UsedRing<N>,
}
/// byte-addressable DMA memory for buffers that are not rings (GPU frame buffer, legacy layout ...)
#[repr(C, align(16))]
pub struct RawMem {
    pub words: [u64; RAW_WORDS],
}
pub const RAW_WORDS: usize = 2048;

pub fn dma_paddr(i: usize) -> u64 {
    0x10_0000 * (i as u64 + 1)
}
pub fn dma_index(paddr: u64) -> Option<usize> {
    if paddr < 0x10_0000 || paddr % 0x10_0000 != 0 {
        return None;
    }
    let i = (paddr / 0x10_0000 - 1) as usize;
    if i < MAXDMA && i < unsafe { DMA_CNT } { Some(i) } else { None }
}

/// Typed DMA Hal: ring memory is handed out as typed, zeroed objects (never as bytes); every
/// allocation and release is logged and checked; share/unshare go to the ledger.
pub struct THal<const N: usize>;
unsafe impl<const N: usize> Hal for THal<N> {
    fn dma_alloc(pages: usize, d: BufferDirection, ap: bool) -> (PhysAddr, NonNull<u8>) {
        unsafe {
            DMA_CALLS += 1;
            if DMA_FAIL_AT != 0 && DMA_CALLS == DMA_FAIL_AT {
                return (0, NonNull::dangling());
            }
            let i = DMA_CNT;
            assert!(i < MAXDMA, "harness: DMA log full");
            assert!(pages >= 1, "C06: zero-page DMA allocation");
            let p: *mut u8 = match d {
                BufferDirection::DriverToDevice if pages == 1 && DMA_CALLS <= DMA_RING_ALLOCS => alloc::boxed::Box::into_raw(alloc::boxed::Box::new(D2DMem::<N> {
                    desc: FromZeros::new_zeroed(),
                    avail: AvailRing { flags: AtomicU16::new(0), idx: AtomicU16::new(0), ring: [0; N], used_event: AtomicU16::new(0) },
                })) as *mut u8,
                BufferDirection::DeviceToDriver if pages == 1 && DMA_CALLS <= DMA_RING_ALLOCS => alloc::boxed::Box::into_raw(alloc::boxed::Box::new(D2HMem::<N> {
                    used: UsedRing { flags: AtomicU16::new(0), idx: AtomicU16::new(0), ring: core::array::from_fn(|_| UsedElem { id: 0, len: 0 }), avail_event: AtomicU16::new(0) },
                })) as *mut u8,
                _ => {
                    assert!(pages * 4096 <= RAW_WORDS * 8, "harness: raw DMA allocation larger than the model supports");
                    alloc::boxed::Box::into_raw(alloc::boxed::Box::new(RawMem { words: [0; RAW_WORDS] })) as *mut u8
                }
            };
            DMA[i] = DmaRec { paddr: dma_paddr(i), vaddr: p, pages, dir: dir_code(d), ap, live: true, deallocs: 0 };
            DMA_CNT = i + 1;
            ev_push(EV_DMA_ALLOC, i as u64);
            (dma_paddr(i), NonNull::new(p).unwrap())
        }
    }
    unsafe fn dma_dealloc(p: PhysAddr, v: NonNull<u8>, pages: usize, ap: bool) -> i32 {
        let f = dma_index(p);
        assert!(f.is_some(), "C09: dma_dealloc of an address dma_alloc never returned");
        let i = f.unwrap();
        assert!(DMA[i].live, "C09: DMA region released twice");
        assert!(DMA_PROTECTED[0] != p && DMA_PROTECTED[1] != p, "C20: DMA memory released while it is still attached to a device resource as backing");
        assert!(DMA[i].vaddr == v.as_ptr() && DMA[i].pages == pages && DMA[i].ap == ap, "C09: dma_dealloc arguments differ from the allocation");
        DMA[i].live = false;
        DMA[i].deallocs += 1;
        ev_push(EV_DMA_DEALLOC, i as u64);
        0
    }
    unsafe fn mmio_phys_to_virt(p: PhysAddr, _s: usize) -> NonNull<u8> {
        NonNull::new(p as usize as *mut u8).unwrap()
    }
    unsafe fn share(b: NonNull<[u8]>, d: BufferDirection, ap: bool) -> PhysAddr {
        lg_share(b, d, ap)
    }
    unsafe fn unshare(p: PhysAddr, b: NonNull<[u8]>, d: BufferDirection, ap: bool) {
        lg_unshare(p, b, d, ap)
    }
}
pub fn dma_live_count() -> usize {
    let mut i = 0;
    let mut c = 0;
    while i < MAXDMA {
        unsafe {
            if i < DMA_CNT && DMA[i].live { c += 1; }
        }
        i += 1;
    }
    c
}

// ------------------------------------------------------------------------------------------------
// Typed backing
pub struct Backing<const N: usize> {
    pub desc: [Descriptor; N],
    pub avail: AvailRing<N>,
    pub used: UsedRing<N>,
}

pub fn zero_backing<const N: usize>() -> Backing<N> {
    Backing {
        desc: FromZeros::new_zeroed(),
        avail: AvailRing { flags: AtomicU16::new(0), idx: AtomicU16::new(0), ring: [0; N], used_event: AtomicU16::new(0) },
        used: UsedRing {
            flags: AtomicU16::new(0),
            idx: AtomicU16::new(0),
            ring: core::array::from_fn(|_| UsedElem { id: 0, len: 0 }),
            avail_event: AtomicU16::new(0),
        },
    }
}

/// Every byte the device can reach is arbitrary.
pub fn any_backing<const N: usize>() -> Backing<N> {
    let mut b = zero_backing::<N>();
    let mut i = 0;
    while i < N {
        b.desc[i].addr = kani::any();
        b.desc[i].len = kani::any();
        b.desc[i].flags = DescFlags::from_bits_retain(kani::any());
        b.desc[i].next = kani::any();
        b.avail.ring[i] = kani::any();
        b.used.ring[i] = UsedElem { id: kani::any(), len: kani::any() };
        i += 1;
    }
    b.avail.flags.store(kani::any(), Ordering::Relaxed);
    b.avail.idx.store(kani::any(), Ordering::Relaxed);
    b.avail.used_event.store(kani::any(), Ordering::Relaxed);
    b.used.flags.store(kani::any(), Ordering::Relaxed);
    b.used.idx.store(kani::any(), Ordering::Relaxed);
    b.used.avail_event.store(kani::any(), Ordering::Relaxed);
    b
}

#[derive(Clone, Copy)]
pub struct DescV {
    pub addr: u64,
    pub len: u32,
    pub flags: u16,
    pub next: u16,
}
pub fn dv(d: &Descriptor) -> DescV {
    DescV { addr: d.addr, len: d.len, flags: d.flags.bits(), next: d.next }
}
pub fn dv_eq(a: &DescV, b: &DescV) -> bool {
    a.addr == b.addr && a.len == b.len && a.flags == b.flags && a.next == b.next
}

/// Snapshot of everything the device can see.
pub struct DevSnap<const N: usize> {
    pub desc: [DescV; N],
    pub ring: [u16; N],
    pub avail_flags: u16,
    pub avail_idx: u16,
    pub used_event: u16,
}
pub fn dev_snap<const N: usize>(b: &Backing<N>) -> DevSnap<N> {
    DevSnap {
        desc: core::array::from_fn(|i| dv(&b.desc[i])),
        ring: b.avail.ring,
        avail_flags: b.avail.flags.load(Ordering::Relaxed),
        avail_idx: b.avail.idx.load(Ordering::Relaxed),
        used_event: b.avail.used_event.load(Ordering::Relaxed),
    }
}

/// Snapshot of the driver-private queue state.
pub struct PrivSnap<const N: usize> {
    pub num_used: u16,
    pub free_head: u16,
    pub avail_idx: u16,
    pub last_used_idx: u16,
    pub shadow: [DescV; N],
    pub ind: [bool; N],
    pub lg_n: usize,
}
pub fn priv_snap<H: Hal, const N: usize>(q: &VirtQueue<H, N>) -> PrivSnap<N> {
    PrivSnap {
        num_used: q.num_used,
        free_head: q.free_head,
        avail_idx: q.avail_idx,
        last_used_idx: q.last_used_idx,
        shadow: core::array::from_fn(|i| dv(&q.desc_shadow[i])),
        ind: core::array::from_fn(|i| q.indirect_lists[i].is_some()),
        lg_n: unsafe { LG_N },
    }
}
pub fn priv_same<H: Hal, const N: usize>(q: &VirtQueue<H, N>, s: &PrivSnap<N>) -> bool {
    let mut ok = q.num_used == s.num_used
        && q.free_head == s.free_head
        && q.avail_idx == s.avail_idx
        && q.last_used_idx == s.last_used_idx
        && unsafe { LG_N } == s.lg_n;
    let mut i = 0;
    while i < N {
        ok &= dv_eq(&dv(&q.desc_shadow[i]), &s.shadow[i]);
        ok &= q.indirect_lists[i].is_some() == s.ind[i];
        i += 1;
    }
    ok
}
pub fn dev_same<const N: usize>(b: &Backing<N>, s: &DevSnap<N>) -> bool {
    let mut ok = b.avail.flags.load(Ordering::Relaxed) == s.avail_flags
        && b.avail.idx.load(Ordering::Relaxed) == s.avail_idx
        && b.avail.used_event.load(Ordering::Relaxed) == s.used_event;
    let mut i = 0;
    while i < N {
        ok &= dv_eq(&dv(&b.desc[i]), &s.desc[i]);
        ok &= b.avail.ring[i] == s.ring[i];
        i += 1;
    }
    ok
}

pub fn mk_queue<H: Hal, const N: usize>(
    b: &mut Backing<N>,
    queue_idx: u16,
    indirect: bool,
    event_idx: bool,
    access_platform: bool,
) -> VirtQueue<H, N> {
    let layout = VirtQueueLayout::<H>::allocate_flexible(N as u16, access_platform).unwrap();
    let desc = NonNull::slice_from_raw_parts(NonNull::new(b.desc.as_mut_ptr()).unwrap(), N);
    const NONE: Option<NonNull<[Descriptor]>> = None;
    let mut desc_shadow: [Descriptor; N] = FromZeros::new_zeroed();
    let mut i = 0;
    while i + 1 < N {
        desc_shadow[i].next = (i + 1) as u16;
        i += 1;
    }
    VirtQueue {
        layout,
        desc,
        avail: NonNull::from(&mut b.avail),
        used: NonNull::from(&mut b.used),
        queue_idx,
        num_used: 0,
        free_head: 0,
        desc_shadow,
        avail_idx: 0,
        last_used_idx: 0,
        event_idx,
        access_platform,
        indirect,
        indirect_lists: [NONE; N],
    }
}

// ------------------------------------------------------------------------------------------------
// Ghost state and the representation invariant
pub const K: usize = 3; // outstanding chains tracked by the ghost
pub const FREE: u8 = 0xff;
pub const MAXC: usize = 4; // buffers per chain in harnesses

pub struct Ghost<const N: usize> {
    /// FREE or chain id
    pub owner: [u8; N],
    pub head: [u16; K],
    /// descriptors of the chain in the main table (0 = chain absent)
    pub cnt: [u16; K],
    /// buffers of the chain (= cnt for direct chains, table length for indirect ones)
    pub nbuf: [u16; K],
    pub n_in: [u16; K],
    pub indirect: [bool; K],
    /// ledger index of the chain's first buffer; buffer s is entry eb+s, an indirect table is eb+nbuf
    pub eb: [usize; K],
}

pub fn any_ghost<const N: usize>() -> Ghost<N> {
    Ghost {
        owner: kani::any(),
        head: kani::any(),
        cnt: kani::any(),
        nbuf: kani::any(),
        n_in: kani::any(),
        indirect: kani::any(),
        eb: kani::any(),
    }
}

/// Havoc every driver-private field of the queue.
pub fn havoc_private<H: Hal, const N: usize>(q: &mut VirtQueue<H, N>) {
    q.num_used = kani::any();
    q.free_head = kani::any();
    q.avail_idx = kani::any();
    q.last_used_idx = kani::any();
    let mut i = 0;
    while i < N {
        q.desc_shadow[i].addr = kani::any();
        q.desc_shadow[i].len = kani::any();
        q.desc_shadow[i].flags = DescFlags::from_bits_retain(kani::any::<u16>() & 7);
        q.desc_shadow[i].next = kani::any();
        i += 1;
    }
}

/// Identity-only stand-ins for buffers of chains the step under test never touches.
pub fn dummy_ptr(e: usize) -> usize {
    kani::any()
}

/// INV items 1-5 for a queue without indirect descriptors (DESIGN.md §4.2).  Pure predicate, no
/// short-circuiting, every loop bounded by N or K.
pub fn inv_direct<H: Hal, const N: usize>(q: &VirtQueue<H, N>, g: &Ghost<N>) -> bool {
    let n16 = N as u16;
    let mut ok = q.free_head < n16 && q.num_used <= n16;
    let mut i = 0;
    while i < N {
        ok &= q.desc_shadow[i].next < n16;
        ok &= q.indirect_lists[i].is_none();
        ok &= g.owner[i] == FREE || (g.owner[i] as usize) < K;
        i += 1;
    }
    if !ok {
        return false;
    }
    let nfree = (n16 - q.num_used) as usize;
    let mut seen = [false; N];
    // free list: exactly the FREE descriptors, each once
    let mut cur = q.free_head as usize;
    let mut s = 0;
    while s < N {
        if s < nfree {
            ok &= g.owner[cur] == FREE && !seen[cur];
            seen[cur] = true;
            cur = q.desc_shadow[cur].next as usize;
        }
        s += 1;
    }
    let mut free_cnt = 0;
    i = 0;
    while i < N {
        if g.owner[i] == FREE {
            free_cnt += 1;
        }
        i += 1;
    }
    ok &= free_cnt == nfree;
    // chains
    let mut total: u16 = 0;
    let mut k = 0;
    while k < K {
        let c = g.cnt[k] as usize;
        ok &= c <= N;
        if ok && c > 0 {
            ok &= !g.indirect[k] && g.nbuf[k] == g.cnt[k] && g.n_in[k] <= g.cnt[k];
            ok &= g.head[k] < n16;
            ok &= g.eb[k] < MAXSH;
            ok &= ok && g.eb[k] + c <= unsafe { LG_N };
            let mut cur = g.head[k] as usize;
            let mut s = 0;
            while s < N {
                if ok && s < c {
                    let d = &q.desc_shadow[cur];
                    ok &= g.owner[cur] == k as u8 && !seen[cur];
                    seen[cur] = true;
                    let e = g.eb[k] + s;
                    ok &= e < MAXSH;
                    if ok {
                        let sh = unsafe { LG[e] };
                        let want_dir = if (s as u16) < g.n_in[k] { D2D } else { D2H };
                        ok &= sh.live && sh.dir == want_dir && sh.ap == q.access_platform && sh.unshares == 0;
                        ok &= sh.len >= 1 && sh.len <= u32::MAX as usize;
                        ok &= d.addr == lg_paddr(e) && d.len as usize == sh.len;
                        let mut f = 0u16;
                        if s + 1 < c {
                            f |= 1;
                        }
                        if want_dir == D2H {
                            f |= 2;
                        }
                        ok &= d.flags.bits() == f;
                    }
                    cur = d.next as usize;
                }
                s += 1;
            }
            total += g.cnt[k];
        }
        k += 1;
    }
    // chains own exactly their descriptors; ledger ranges of different chains are disjoint
    let mut owned = 0u16;
    i = 0;
    while i < N {
        if g.owner[i] != FREE {
            owned += 1;
            ok &= (g.owner[i] as usize) < K && g.cnt[g.owner[i] as usize % K] > 0;
        }
        i += 1;
    }
    ok &= owned == total && total == q.num_used;
    let mut a = 0;
    while a < K {
        let mut bb = a + 1;
        while bb < K {
            if ok && g.cnt[a] > 0 && g.cnt[bb] > 0 {
                ok &= g.eb[a] + g.cnt[a] as usize <= g.eb[bb] || g.eb[bb] + g.cnt[bb] as usize <= g.eb[a];
            }
            bb += 1;
        }
        a += 1;
    }
    ok
}

/// INV for a queue with indirect descriptors enabled: every outstanding chain occupies one
/// descriptor of the main table; multi-buffer chains own a table recorded in indirect_lists.
/// `tbl[k]` is the harness's knowledge of the chain's table pointer (None for single-buffer chains).
pub fn inv_indirect<H: Hal, const N: usize>(q: &VirtQueue<H, N>, g: &Ghost<N>, tbl: &[Option<NonNull<[Descriptor]>>; K]) -> bool {
    let n16 = N as u16;
    let mut ok = q.free_head < n16 && q.num_used <= n16;
    let mut i = 0;
    while i < N {
        ok &= q.desc_shadow[i].next < n16;
        ok &= g.owner[i] == FREE || (g.owner[i] as usize) < K;
        i += 1;
    }
    if !ok {
        return false;
    }
    let nfree = (n16 - q.num_used) as usize;
    let mut seen = [false; N];
    let mut cur = q.free_head as usize;
    let mut s = 0;
    while s < N {
        if s < nfree {
            ok &= g.owner[cur] == FREE && !seen[cur];
            seen[cur] = true;
            cur = q.desc_shadow[cur].next as usize;
        }
        s += 1;
    }
    let mut free_cnt = 0;
    i = 0;
    while i < N {
        if g.owner[i] == FREE {
            free_cnt += 1;
            ok &= q.indirect_lists[i].is_none();
        }
        i += 1;
    }
    ok &= free_cnt == nfree;
    let mut total = 0u16;
    let mut k = 0;
    while k < K {
        ok &= g.cnt[k] <= 1;
        if ok && g.cnt[k] == 1 {
            let h = g.head[k] as usize;
            ok &= h < N;
            if ok {
                ok &= g.owner[h] == k as u8 && !seen[h];
                seen[h] = true;
                let d = &q.desc_shadow[h];
                let nb = g.nbuf[k] as usize;
                ok &= nb >= 1 && g.n_in[k] <= g.nbuf[k] && g.eb[k] < MAXSH && g.eb[k] + nb + 1 <= MAXSH;
                ok &= g.indirect[k] == (nb > 1);
                if ok && nb == 1 {
                    let sh = unsafe { LG[g.eb[k]] };
                    let want_dir = if g.n_in[k] == 1 { D2D } else { D2H };
                    ok &= g.eb[k] + 1 <= unsafe { LG_N };
                    ok &= sh.live && sh.dir == want_dir && sh.ap == q.access_platform && sh.unshares == 0;
                    ok &= sh.len >= 1 && sh.len <= u32::MAX as usize;
                    ok &= d.addr == lg_paddr(g.eb[k]) && d.len as usize == sh.len;
                    ok &= d.flags.bits() == if want_dir == D2H { 2 } else { 0 };
                    ok &= q.indirect_lists[h].is_none() && tbl[k].is_none();
                } else if ok {
                    let te = g.eb[k] + nb;
                    ok &= te < unsafe { LG_N };
                    let sh = unsafe { LG[te % MAXSH] };
                    ok &= sh.live && sh.dir == D2D && sh.ap == q.access_platform && sh.len == 16 * nb && sh.unshares == 0;
                    ok &= d.addr == lg_paddr(te) && d.len as usize == 16 * nb && d.flags.bits() == 4;
                    ok &= tbl[k].is_some() && q.indirect_lists[h] == tbl[k];
                    ok &= nb <= MAXC;
                    let mut s = 0;
                    while s < MAXC {
                        if ok && s < nb {
                            let bs = unsafe { LG[(g.eb[k] + s) % MAXSH] };
                            let wd = if (s as u16) < g.n_in[k] { D2D } else { D2H };
                            ok &= bs.live && bs.dir == wd && bs.ap == q.access_platform && bs.unshares == 0;
                            ok &= bs.len >= 1 && bs.len <= u32::MAX as usize;
                        }
                        s += 1;
                    }
                    if let Some(t) = tbl[k] {
                        ok &= t.len() == nb && sh.ptr == t.as_ptr() as *mut u8 as usize;
                    }
                }
            }
            total += 1;
        }
        k += 1;
    }
    let mut owned = 0u16;
    i = 0;
    while i < N {
        if g.owner[i] != FREE {
            owned += 1;
            ok &= (g.owner[i] as usize) < K && g.cnt[g.owner[i] as usize % K] > 0;
        }
        i += 1;
    }
    ok &= owned == total && total == q.num_used;
    let mut a = 0;
    while a < K {
        let mut bb = a + 1;
        while bb < K {
            if ok && g.cnt[a] > 0 && g.cnt[bb] > 0 {
                let la = if g.nbuf[a] > 1 { g.nbuf[a] as usize + 1 } else { 1 };
                let lb = if g.nbuf[bb] > 1 { g.nbuf[bb] as usize + 1 } else { 1 };
                ok &= g.eb[a] + la <= g.eb[bb] || g.eb[bb] + lb <= g.eb[a];
            }
            bb += 1;
        }
        a += 1;
    }
    ok
}

/// Constructive generator of an arbitrary INV state (direct mode).  A symbolic permutation `ord` of the
/// descriptors is cut into chain 0 | chain 1 | chain 2 | free list; every state satisfying inv_direct is
/// the image of some (ord, cuts, directions, tails): the free list and each chain are sequences of pairwise
/// distinct descriptors, what `next` holds at the end of each sequence is arbitrary (< N), free descriptors
/// carry arbitrary stale addr/len/flags, and ghost chain ids are labels.  Ledger entries of the chains are
/// laid out contiguously from 0 (entries of long-gone chains are dead and irrelevant).
pub type Chain0 = Option<(usize, usize, [usize; MAXC], [usize; MAXC])>;
pub fn gen_direct<H: Hal, const N: usize>(q: &mut VirtQueue<H, N>, chain0: Chain0, maxch: usize) -> Ghost<N> {
    let mut ord = [0u16; N];
    let mut i = 0;
    while i < N {
        let v: u16 = kani::any();
        kani::assume((v as usize) < N);
        ord[i] = v;
        i += 1;
    }
    i = 0;
    while i < N {
        let mut j = i + 1;
        while j < N {
            kani::assume(ord[i] != ord[j]);
            j += 1;
        }
        i += 1;
    }
    let mut c: [usize; K] = kani::any();
    if let Some((c0, _, _, _)) = chain0 { c[0] = c0; }
    kani::assume(c[0] <= N && c[1] <= N && c[2] <= N && c[0] + c[1] + c[2] <= N);
    if maxch < 3 { kani::assume(c[2] == 0); }
    if maxch < 2 { kani::assume(c[1] == 0); }
    let mut nin: [usize; K] = kani::any();
    if let Some((_, i0, _, _)) = chain0 { nin[0] = i0; }
    kani::assume(nin[0] <= c[0] && nin[1] <= c[1] && nin[2] <= c[2]);
    let total = c[0] + c[1] + c[2];
    let mut g = Ghost::<N> {
        owner: [FREE; N],
        head: [0; K],
        cnt: [c[0] as u16, c[1] as u16, c[2] as u16],
        nbuf: [c[0] as u16, c[1] as u16, c[2] as u16],
        n_in: [nin[0] as u16, nin[1] as u16, nin[2] as u16],
        indirect: [false; K],
        eb: [0, c[0], c[0] + c[1]],
    };
    let mut p = 0;
    while p < N {
        let d = ord[p] as usize;
        let (k, s) = if p < c[0] { (0, p) } else if p < c[0] + c[1] { (1, p - c[0]) } else if p < total { (2, p - c[0] - c[1]) } else { (K, p - total) };
        let seg_end = if k < K { g.eb[k] + c[k] } else { N };
        let tail: u16 = kani::any();
        kani::assume((tail as usize) < N);
        let next = if p + 1 < seg_end { ord[p + 1] } else { tail };
        if k < K {
            if s == 0 {
                g.head[k] = ord[p];
            }
            g.owner[d] = k as u8;
            let e = g.eb[k] + s;
            let mut len: usize = kani::any();
            kani::assume(len >= 1 && len <= u32::MAX as usize);
            let mut ptr = dummy_ptr(e);
            if k == 0 {
                if let Some((_, _, ps, ls)) = chain0 {
                    ptr = ps[s % MAXC];
                    len = ls[s % MAXC];
                }
            }
            let dir = if s < nin[k] { D2D } else { D2H };
            unsafe {
                LG[e] = Sh { ptr, len, dir, ap: q.access_platform, live: true, unshares: 0 };
            }
            let mut f = 0u16;
            if s + 1 < c[k] { f |= 1; }
            if dir == D2H { f |= 2; }
            q.desc_shadow[d].addr = lg_paddr(e);
            q.desc_shadow[d].len = len as u32;
            q.desc_shadow[d].flags = DescFlags::from_bits_retain(f);
        } else {
            q.desc_shadow[d].addr = kani::any();
            q.desc_shadow[d].len = kani::any();
            q.desc_shadow[d].flags = DescFlags::from_bits_retain(kani::any::<u16>() & 7);
        }
        q.desc_shadow[d].next = next;
        p += 1;
    }
    let fh: u16 = kani::any();
    kani::assume((fh as usize) < N);
    q.free_head = if total < N { ord[total % N] } else { fh };
    q.num_used = total as u16;
    q.avail_idx = kani::any();
    q.last_used_idx = kani::any();
    unsafe { LG_N = total; }
    g
}

/// Constructive generator of an arbitrary INV state for a queue with indirect descriptors enabled: every
/// outstanding chain holds exactly one descriptor of the main table (a single buffer, or an indirect
/// table of 2..=MAXC buffers).  Chain 0 (the one a harness pops) has `nb0` buffers and, if nb0 > 1, a real
/// heap table; the tables of the other chains are never dereferenced by the step under test and are
/// represented by their pointer identity only.
pub fn gen_indirect<H: Hal, const N: usize>(q: &mut VirtQueue<H, N>, nb0: usize, nin0: usize, bufs0: ([usize; MAXC], [usize; MAXC]), maxch: usize) -> (Ghost<N>, [Option<NonNull<[Descriptor]>>; K]) {
    let mut ord = [0u16; N];
    let mut i = 0;
    while i < N {
        let v: u16 = kani::any();
        kani::assume((v as usize) < N);
        ord[i] = v;
        i += 1;
    }
    i = 0;
    while i < N {
        let mut j = i + 1;
        while j < N {
            kani::assume(ord[i] != ord[j]);
            j += 1;
        }
        i += 1;
    }
    // chains present: a prefix of the K ghost slots
    let nch: usize = kani::any();
    kani::assume(nch <= maxch && nch <= K && nch <= N);
    if nb0 > 0 { kani::assume(nch >= 1); }
    let mut nb: [usize; K] = kani::any();
    let mut nin: [usize; K] = kani::any();
    if nb0 > 0 { nb[0] = nb0; nin[0] = nin0; }
    let mut g = Ghost::<N> { owner: [FREE; N], head: [0; K], cnt: [0; K], nbuf: [0; K], n_in: [0; K], indirect: [false; K], eb: [0; K] };
    let mut tbl: [Option<NonNull<[Descriptor]>>; K] = [None; K];
    let mut e = 0usize;
    let mut k = 0;
    while k < K {
        if k < nch {
            kani::assume(nb[k] >= 1 && nb[k] <= MAXC && nin[k] <= nb[k]);
            let d = ord[k] as usize;
            g.owner[d] = k as u8;
            g.head[k] = ord[k];
            g.cnt[k] = 1;
            g.nbuf[k] = nb[k] as u16;
            g.n_in[k] = nin[k] as u16;
            g.indirect[k] = nb[k] > 1;
            g.eb[k] = e;
            let mut s = 0;
            while s < MAXC {
                if s < nb[k] {
                    let mut len: usize = kani::any();
                    kani::assume(len >= 1 && len <= u32::MAX as usize);
                    let mut ptr = dummy_ptr(e + s);
                    if k == 0 && nb0 > 0 {
                        ptr = bufs0.0[s];
                        len = bufs0.1[s];
                    }
                    unsafe {
                        LG[e + s] = Sh { ptr, len, dir: if s < nin[k] { D2D } else { D2H }, ap: q.access_platform, live: true, unshares: 0 };
                    }
                }
                s += 1;
            }
            if nb[k] == 1 {
                let sh = unsafe { LG[e] };
                q.desc_shadow[d].addr = lg_paddr(e);
                q.desc_shadow[d].len = sh.len as u32;
                q.desc_shadow[d].flags = DescFlags::from_bits_retain(if sh.dir == D2H { 2 } else { 0 });
                e += 1;
            } else {
                let te = e + nb[k];
                let tp: NonNull<[Descriptor]> = if k == 0 && nb0 > 1 {
                    let mut bx = <[Descriptor]>::new_box_zeroed_with_elems(nb0).unwrap();
                    let mut s = 0;
                    while s < MAXC {
                        if s < nb0 {
                            let sh = unsafe { LG[e + s] };
                            bx[s].addr = lg_paddr(e + s);
                            bx[s].len = sh.len as u32;
                            let mut f = 0u16;
                            if s + 1 < nb0 { f |= 1; }
                            if sh.dir == D2H { f |= 2; }
                            bx[s].flags = DescFlags::from_bits_retain(f);
                            bx[s].next = (s + 1) as u16;
                        }
                        s += 1;
                    }
                    NonNull::from(alloc::boxed::Box::leak(bx))
                } else {
                    NonNull::slice_from_raw_parts(NonNull::<Descriptor>::dangling(), nb[k])
                };
                unsafe {
                    LG[te] = Sh { ptr: tp.as_ptr() as *mut u8 as usize, len: 16 * nb[k], dir: D2D, ap: q.access_platform, live: true, unshares: 0 };
                }
                q.desc_shadow[d].addr = lg_paddr(te);
                q.desc_shadow[d].len = (16 * nb[k]) as u32;
                q.desc_shadow[d].flags = DescFlags::from_bits_retain(4);
                q.indirect_lists[d] = Some(tp);
                tbl[k] = Some(tp);
                e = te + 1;
            }
            let tail: u16 = kani::any();
            kani::assume((tail as usize) < N);
            q.desc_shadow[d].next = tail;
        }
        k += 1;
    }
    // free list
    let mut p = 0;
    while p < N {
        if p >= nch {
            let d = ord[p] as usize;
            let tail: u16 = kani::any();
            kani::assume((tail as usize) < N);
            q.desc_shadow[d].addr = kani::any();
            q.desc_shadow[d].len = kani::any();
            q.desc_shadow[d].flags = DescFlags::from_bits_retain(kani::any::<u16>() & 7);
            q.desc_shadow[d].next = if p + 1 < N { ord[p + 1] } else { tail };
        }
        p += 1;
    }
    let fh: u16 = kani::any();
    kani::assume((fh as usize) < N);
    q.free_head = if nch < N { ord[nch % N] } else { fh };
    q.num_used = nch as u16;
    q.avail_idx = kani::any();
    q.last_used_idx = kani::any();
    unsafe { LG_N = e; }
    (g, tbl)
}

/// The specification's notification predicate (virtio 1.x, vring_need_event).
pub fn need_event(event: u16, new: u16, old: u16) -> bool {
    new.wrapping_sub(event).wrapping_sub(1) < new.wrapping_sub(old)
}

// ------------------------------------------------------------------------------------------------
// Minimal transport for queue-level harnesses: counts notifications.
pub struct NT {
    pub notified: u32,
    pub last_q: u16,
    pub max_size: u32,
    pub used: bool,
    pub legacy: bool,
}
pub fn nt() -> NT {
    NT { notified: 0, last_q: 0xffff, max_size: 0x8000, used: false, legacy: false }
}
impl Transport for NT {
    fn device_type(&self) -> DeviceType { DeviceType::Block }
    fn read_device_features(&mut self) -> u64 { 0 }
    fn write_driver_features(&mut self, _f: u64) {}
    fn max_queue_size(&mut self, _q: u16) -> u32 { self.max_size }
    fn notify(&mut self, q: u16) { self.notified += 1; self.last_q = q; }
    fn get_status(&self) -> DeviceStatus { DeviceStatus::empty() }
    fn set_status(&mut self, _s: DeviceStatus) {}
    fn set_guest_page_size(&mut self, _g: u32) {}
    fn requires_legacy_layout(&self) -> bool { self.legacy }
    fn queue_set(&mut self, _q: u16, _s: u32, _d: PhysAddr, _a: PhysAddr, _u: PhysAddr) {}
    fn queue_unset(&mut self, _q: u16) {}
    fn queue_used(&mut self, _q: u16) -> bool { self.used }
    fn ack_interrupt(&mut self) -> InterruptStatus { InterruptStatus::empty() }
    fn read_config_generation(&self) -> u32 { 0 }
    fn read_config_space<T: FromBytes + IntoBytes>(&self, _o: usize) -> crate::Result<T> { Err(Error::ConfigSpaceMissing) }
    fn write_config_space<T: IntoBytes + Immutable>(&mut self, _o: usize, _v: T) -> crate::Result<()> { Err(Error::ConfigSpaceMissing) }
}


// ------------------------------------------------------------------------------------------------
// Model transport + reference-device plumbing for driver-level harnesses
pub trait DevModel {
    /// the device reacts to an available-buffer notification on `queue`
    fn on_notify(queue: u16);
}
pub struct NoDev;
impl DevModel for NoDev {
    fn on_notify(_q: u16) {}
}

pub const MAXQ: usize = 4;
#[derive(Clone, Copy)]
pub struct QInfo {
    pub d2d: *mut u8,
    pub d2h: *mut u8,
    pub size: u32,
    pub last: u16,
    pub set: bool,
    pub sets: u8,
}
pub const Q0: QInfo = QInfo { d2d: core::ptr::null_mut(), d2h: core::ptr::null_mut(), size: 0, last: 0, set: false, sets: 0 };
pub static mut QS: [QInfo; MAXQ] = [Q0; MAXQ];
pub static mut DRIVER_OK_SEEN: bool = false;
pub static mut NOTIFY_BEFORE_OK: bool = false;

/// Transport whose every call is logged, with symbolic offered features, configuration bytes and
/// queue-size limit; it resets the device when dropped, exactly like MmioTransport / PciTransport.
pub struct MT<D: DevModel> {
    pub dtype: DeviceType,
    pub offered: u64,
    pub written: u64,
    pub status: u32,
    pub max_q: u32,
    pub cfg: [u8; 64],
    pub cfg_len: usize,
    pub generation: u32,
    pub isr: u32,
    pub _d: core::marker::PhantomData<D>,
}
pub fn mt<D: DevModel>(dtype: DeviceType, offered: u64) -> MT<D> {
    MT { dtype, offered, written: 0, status: 0, max_q: 0x8000, cfg: [0; 64], cfg_len: 64, generation: 0, isr: 0, _d: core::marker::PhantomData }
}
impl<D: DevModel> Drop for MT<D> {
    fn drop(&mut self) {
        ev_push(EV_RESET_ON_DROP, 0);
    }
}
impl<D: DevModel> Transport for MT<D> {
    fn device_type(&self) -> DeviceType { self.dtype }
    fn read_device_features(&mut self) -> u64 {
        ev_push(EV_READ_FEATURES, 0);
        self.offered
    }
    fn write_driver_features(&mut self, f: u64) {
        ev_push(EV_WRITE_FEATURES, f);
        self.written = f;
    }
    fn max_queue_size(&mut self, _q: u16) -> u32 { self.max_q }
    fn notify(&mut self, q: u16) {
        ev_push(EV_NOTIFY, q as u64);
        unsafe {
            if !DRIVER_OK_SEEN { NOTIFY_BEFORE_OK = true; }
        }
        D::on_notify(q);
    }
    fn get_status(&self) -> DeviceStatus { DeviceStatus::from_bits_retain(self.status) }
    fn set_status(&mut self, s: DeviceStatus) {
        ev_push(EV_SET_STATUS, s.bits() as u64);
        if s.bits() & 4 != 0 { unsafe { DRIVER_OK_SEEN = true; } }
        if s.bits() == 0 { unsafe { DRIVER_OK_SEEN = false; } }
        self.status = s.bits();
    }
    fn set_guest_page_size(&mut self, _g: u32) { ev_push(EV_GUEST_PAGE_SIZE, 0); }
    fn requires_legacy_layout(&self) -> bool { false }
    fn queue_set(&mut self, q: u16, size: u32, d: PhysAddr, a: PhysAddr, u: PhysAddr) {
        ev_push(EV_QUEUE_SET, q as u64);
        assert!((q as usize) < MAXQ, "harness: queue index beyond the model");
        let (di, ui) = (dma_index(d), dma_index(u));
        assert!(di.is_some() && ui.is_some(), "C04: queue registered at addresses that did not come from dma_alloc");
        unsafe {
            let (di, ui) = (di.unwrap(), ui.unwrap());
            assert!(DMA[di].live && DMA[ui].live && DMA[di].dir != D2H && DMA[ui].dir != D2D, "C06: queue areas registered in DMA memory of the wrong direction");
            assert!(a == d + 16 * size as u64, "C06: driver area does not follow the descriptor table");
            QS[q as usize] = QInfo { d2d: DMA[di].vaddr, d2h: DMA[ui].vaddr, size, last: 0, set: true, sets: QS[q as usize].sets + 1 };
        }
    }
    fn queue_unset(&mut self, q: u16) {
        ev_push(EV_QUEUE_UNSET, q as u64);
        unsafe { if (q as usize) < MAXQ { QS[q as usize].set = false; } }
    }
    fn queue_used(&mut self, q: u16) -> bool { unsafe { (q as usize) < MAXQ && QS[q as usize].set } }
    fn ack_interrupt(&mut self) -> InterruptStatus { InterruptStatus::from_bits_truncate(self.isr) }
    fn read_config_generation(&self) -> u32 { self.generation }
    fn read_config_space<T: FromBytes + IntoBytes>(&self, o: usize) -> crate::Result<T> {
        let n = core::mem::size_of::<T>();
        if self.cfg_len == 0 { return Err(Error::ConfigSpaceMissing); }
        if o + n > self.cfg_len { return Err(Error::ConfigSpaceTooSmall); }
        assert!(n <= 8 && o + n <= 64, "harness: config model range");
        let mut b = [0u8; 8];
        let mut i = 0;
        while i < 8 {
            if i < n { b[i] = self.cfg[o + i]; }
            i += 1;
        }
        Ok(T::read_from_bytes(&b[..n]).unwrap())
    }
    fn write_config_space<T: IntoBytes + Immutable>(&mut self, _o: usize, _v: T) -> crate::Result<()> { Ok(()) }
}

// ---- device-side view of a queue (specification-following device; every check it makes is the C01 oracle) ----
pub const MAXCHAIN: usize = 6;
pub struct Chain {
    pub n: usize,
    pub ptr: [*mut u8; MAXCHAIN],
    pub addr: [u64; MAXCHAIN],
    pub len: [u32; MAXCHAIN],
    pub write: [bool; MAXCHAIN],
    pub indirect: bool,
}
/// next available chain head on queue q, if the driver has published one the device has not taken yet
pub fn dev_take<const N: usize>(q: usize) -> Option<u16> {
    unsafe {
        assert!(QS[q].set && QS[q].size as usize == N, "C08: device asked to serve a queue that is not configured");
        let m = &*(QS[q].d2d as *const D2DMem<N>);
        let aidx = m.avail.idx.load(Ordering::Acquire);
        if aidx == QS[q].last { return None; }
        Some(m.avail.ring[(QS[q].last as usize) & (N - 1)])
    }
}
/// walk the chain starting at `head` exactly as a device would, validating it against the specification
pub fn dev_chain<const N: usize>(q: usize, head: u16, indirect_negotiated: bool) -> Chain {
    let mut c = Chain { n: 0, ptr: [core::ptr::null_mut(); MAXCHAIN], addr: [0; MAXCHAIN], len: [0; MAXCHAIN], write: [false; MAXCHAIN], indirect: false };
    unsafe {
        let m = &*(QS[q].d2d as *const D2DMem<N>);
        assert!((head as usize) < N, "C01: head index out of range");
        let d0 = dv(&m.desc[head as usize]);
        if d0.flags & 4 != 0 {
            assert!(indirect_negotiated, "C08: INDIRECT descriptor although the feature was not negotiated");
            assert!(d0.flags == 4, "C01: indirect descriptor with other flags");
            assert!(d0.len % 16 == 0 && d0.len >= 16, "C01: indirect table length");
            let n = (d0.len / 16) as usize;
            assert!(n <= MAXCHAIN, "harness: chain longer than the model");
            assert!(lg_dev_len(d0.addr) == d0.len as usize && lg_dev_dir(d0.addr) == D2D, "C04: indirect table share");
            let tp = lg_dev_ptr(d0.addr) as *const Descriptor;
            c.indirect = true;
            let mut i = 0;
            while i < MAXCHAIN {
                if i < n {
                    let t = dv(&*tp.add(i));
                    assert!(t.flags & 4 == 0, "C01: nested indirect descriptor");
                    assert!((t.flags & 1 != 0) == (i + 1 < n), "C01: NEXT flag in indirect table");
                    if i + 1 < n { assert!(t.next as usize == i + 1, "C01: indirect table not chained in order"); }
                    c.addr[i] = t.addr;
                    c.len[i] = t.len;
                    c.write[i] = t.flags & 2 != 0;
                }
                i += 1;
            }
            c.n = n;
        } else {
            let mut cur = head as usize;
            let mut seen = [false; N];
            let mut i = 0;
            let mut done = false;
            while i < MAXCHAIN {
                if !done {
                    assert!(cur < N, "C01: descriptor index out of range");
                    assert!(!seen[cur], "C01: descriptor chain is cyclic");
                    seen[cur] = true;
                    let d = dv(&m.desc[cur]);
                    assert!(d.flags & 4 == 0, "C01: INDIRECT inside a direct chain");
                    c.addr[i] = d.addr;
                    c.len[i] = d.len;
                    c.write[i] = d.flags & 2 != 0;
                    c.n = i + 1;
                    if d.flags & 1 != 0 { cur = d.next as usize; } else { done = true; }
                }
                i += 1;
            }
            assert!(done, "harness: chain longer than the model");
        }
        // readable before writable; every element is a live share of the right direction and length
        let mut i = 0;
        let mut seen_w = false;
        while i < MAXCHAIN {
            if i < c.n {
                if c.write[i] { seen_w = true; } else { assert!(!seen_w, "C01: device-readable descriptor after a device-writable one"); }
                let f = lg_find_live(c.addr[i]);
                assert!(f.is_some(), "C04: device was given an address that is not a live share");
                let e = f.unwrap();
                assert!(LG[e].dir == if c.write[i] { D2H } else { D2D }, "C04: buffer direction does not match the descriptor");
                assert!(LG[e].len == c.len[i] as usize, "C01: descriptor length differs from the shared buffer");
                c.ptr[i] = LGP[e];
            }
            i += 1;
        }
    }
    c
}
/// the device marks `head` used with `len` written bytes
pub fn dev_complete<const N: usize>(q: usize, head: u16, len: u32) {
    unsafe {
        let m = &mut *(QS[q].d2h as *mut D2HMem<N>);
        let slot = (QS[q].last as usize) & (N - 1);
        m.used.ring[slot] = UsedElem { id: head as u32, len };
        QS[q].last = QS[q].last.wrapping_add(1);
        m.used.idx.store(QS[q].last, Ordering::Release);
    }
}
/// device writes used element without consuming the next avail entry (out-of-order completion of `head`)
pub fn dev_complete_at<const N: usize>(q: usize, used_pos: u16, head: u16, len: u32) {
    unsafe {
        let m = &mut *(QS[q].d2h as *mut D2HMem<N>);
        m.used.ring[(used_pos as usize) & (N - 1)] = UsedElem { id: head as u32, len };
    }
}
pub fn dev_set_used_idx<const N: usize>(q: usize, idx: u16) {
    unsafe {
        let m = &mut *(QS[q].d2h as *mut D2HMem<N>);
        m.used.idx.store(idx, Ordering::Release);
    }
}
pub fn dev_avail_idx<const N: usize>(q: usize) -> u16 {
    unsafe { (&*(QS[q].d2d as *const D2DMem<N>)).avail.idx.load(Ordering::Acquire) }
}
pub fn dev_avail_slot<const N: usize>(q: usize, pos: u16) -> u16 {
    unsafe { (&*(QS[q].d2d as *const D2DMem<N>)).avail.ring[(pos as usize) & (N - 1)] }
}
pub fn dev_used_event<const N: usize>(q: usize) -> u16 {
    unsafe { (&*(QS[q].d2d as *const D2DMem<N>)).avail.used_event.load(Ordering::Acquire) }
}
pub unsafe fn dev_rd(c: &Chain, i: usize, off: usize) -> u8 {
    assert!(i < c.n && off < c.len[i] as usize, "C01: device read beyond the buffer it was given");
    *c.ptr[i].add(off)
}
pub unsafe fn dev_wr(c: &Chain, i: usize, off: usize, v: u8) {
    assert!(i < c.n && c.write[i] && off < c.len[i] as usize, "C01: device write beyond the buffer it was given / to a read-only part");
    *c.ptr[i].add(off) = v;
}
pub unsafe fn dev_rd_u16(c: &Chain, i: usize, off: usize) -> u16 {
    u16::from_le_bytes([dev_rd(c, i, off), dev_rd(c, i, off + 1)])
}
pub unsafe fn dev_rd_u32(c: &Chain, i: usize, off: usize) -> u32 {
    u32::from_le_bytes([dev_rd(c, i, off), dev_rd(c, i, off + 1), dev_rd(c, i, off + 2), dev_rd(c, i, off + 3)])
}
pub unsafe fn dev_rd_u64(c: &Chain, i: usize, off: usize) -> u64 {
    (dev_rd_u32(c, i, off) as u64) | ((dev_rd_u32(c, i, off + 4) as u64) << 32)
}
pub unsafe fn dev_wr_u32(c: &Chain, i: usize, off: usize, v: u32) {
    let b = v.to_le_bytes();
    dev_wr(c, i, off, b[0]);
    dev_wr(c, i, off + 1, b[1]);
    dev_wr(c, i, off + 2, b[2]);
    dev_wr(c, i, off + 3, b[3]);
}

/// the handshake order every driver's new() must produce (C08); returns the negotiated feature word
pub fn check_handshake(offered: u64, supported: u64, nqueues: usize) -> u64 {
    unsafe {
        assert!(EV_N >= 6, "C08: handshake too short");
        assert!(EVK[0] == EV_SET_STATUS && EVA[0] == 0, "C08: construction must start by resetting the device (status 0)");
        assert!(EVK[1] == EV_SET_STATUS && EVA[1] == 3, "C08: ACKNOWLEDGE|DRIVER must be set after the reset");
        assert!(EVK[2] == EV_READ_FEATURES, "C08: device features must be read after ACKNOWLEDGE|DRIVER");
        assert!(EVK[3] == EV_WRITE_FEATURES, "C08: driver features must be written after reading the offered ones");
        let w = EVA[3];
        assert!(w & !offered == 0, "C08: accepted a feature the device did not offer");
        assert!(w == offered & supported, "C08: negotiated features must be exactly offered AND supported");
        if offered & (1 << 32) != 0 { assert!(w & (1 << 32) != 0, "C08: VERSION_1 offered but not accepted"); }
        assert!(EVK[4] == EV_SET_STATUS && EVA[4] == 11, "C08: FEATURES_OK must be set after writing the features");
        let ok = ev_find(EV_SET_STATUS, Some(15), 5);
        assert!(ok.is_some(), "C08: DRIVER_OK never set");
        let ok = ok.unwrap();
        assert!(ev_count(EV_QUEUE_SET) == nqueues, "C08: number of configured queues");
        let mut i = 0;
        while i < MAXEV {
            if i < EV_N {
                if EVK[i] == EV_QUEUE_SET { assert!(i > 4 && i < ok, "C08: queues must be configured after FEATURES_OK and before DRIVER_OK"); }
                if EVK[i] == EV_NOTIFY { assert!(i > ok, "C08: available-buffer notification sent before DRIVER_OK"); }
                if EVK[i] == EV_SET_STATUS && i > ok { assert!(false, "C08: status written again after DRIVER_OK during construction"); }
            }
            i += 1;
        }
        w
    }
}

// accessors for harness modules outside crate::queue
pub fn q_flags<H: Hal, const N: usize>(q: &VirtQueue<H, N>) -> (bool, bool, bool) {
    (q.indirect, q.event_idx, q.access_platform)
}
pub fn q_num_used<H: Hal, const N: usize>(q: &VirtQueue<H, N>) -> u16 { q.num_used }
pub fn q_last_used<H: Hal, const N: usize>(q: &VirtQueue<H, N>) -> u16 { q.last_used_idx }
pub fn q_avail_idx<H: Hal, const N: usize>(q: &VirtQueue<H, N>) -> u16 { q.avail_idx }
pub fn q_index<H: Hal, const N: usize>(q: &VirtQueue<H, N>) -> u16 { q.queue_idx }

/// shift the free-running ring indices of a queue whose chains are all still outstanding and unconsumed
/// (driver-private copies, published index and the device's used index move together)
pub fn q_shift_indices<H: Hal, const N: usize>(q: &mut VirtQueue<H, N>, base: u16) {
    let outstanding = q.avail_idx.wrapping_sub(q.last_used_idx);
    // SAFETY: harness-owned typed ring memory
    unsafe {
        let av = &mut *q.avail.as_ptr();
        let us = &mut *q.used.as_ptr();
        // rotate the ring contents so that slot (base + i) holds what slot (old + i) held
        let old = q.last_used_idx;
        let mut tmp = [0u16; N];
        let mut i = 0;
        while i < N {
            tmp[i] = av.ring[(old.wrapping_add(i as u16) as usize) & (N - 1)];
            i += 1;
        }
        i = 0;
        while i < N {
            av.ring[(base.wrapping_add(i as u16) as usize) & (N - 1)] = tmp[i];
            i += 1;
        }
        q.last_used_idx = base;
        q.avail_idx = base.wrapping_add(outstanding);
        av.idx.store(q.avail_idx, Ordering::Relaxed);
        us.idx.store(base, Ordering::Relaxed);
    }
}

/// hostile device: arbitrary used element at `pos` and arbitrary used index
pub fn dev_hostile_used<const N: usize>(q: usize, pos: u16, id: u32, len: u32, used_idx: u16) {
    unsafe {
        let m = &mut *(QS[q].d2h as *mut D2HMem<N>);
        m.used.ring[(pos as usize) & (N - 1)] = UsedElem { id, len };
        m.used.idx.store(used_idx, Ordering::Relaxed);
    }
}

/// C09: after a successful construction and drop: every DMA release is ordered after queue_unset of all `nq`
/// queues or after the device reset; everything allocated was released exactly once.
pub fn check_teardown(nq: usize, ndma: usize) {
    unsafe {
        let reset = ev_find(EV_RESET_ON_DROP, None, 0);
        let mut last_unset = 0usize;
        let mut all_unset = true;
        let mut q = 0;
        while q < MAXQ {
            if q < nq {
                match ev_find(EV_QUEUE_UNSET, Some(q as u64), 0) {
                    Some(i) => { if i > last_unset { last_unset = i; } }
                    None => all_unset = false,
                }
            }
            q += 1;
        }
        let mut i = 0;
        while i < MAXEV {
            if i < EV_N && EVK[i] == EV_DMA_DEALLOC {
                assert!((all_unset && last_unset < i) || (reset.is_some() && reset.unwrap() < i), "C09: queue memory released while the device was live on that queue");
            }
            i += 1;
        }
        assert!(dma_live_count() == 0 && DMA_CNT == ndma, "C09: every DMA region must be returned exactly once");
        let mut d = 0;
        while d < MAXDMA {
            if d < DMA_CNT { assert!(DMA[d].deallocs == 1, "C09: DMA region released more or less than once"); }
            d += 1;
        }
    }
}
/// C09: after a construction that failed because a DMA allocation failed
pub fn check_failed_new(e: Error) {
    assert!(e == Error::DmaError, "C09: DMA exhaustion must be reported as DmaError");
    assert!(dma_live_count() == 0, "C09: DMA region leaked by a failed construction");
    assert!(ev_find(EV_SET_STATUS, Some(15), 0).is_none(), "C08/C09: DRIVER_OK set by a failed construction (the device is live while the memory of its queues is released)");
}

/// word-sized device accesses (one unaligned load/store instead of four byte accesses)
pub unsafe fn dev_rd_u32w(c: &Chain, i: usize, off: usize) -> u32 {
    assert!(i < c.n && off + 4 <= c.len[i] as usize, "C01: device read beyond the buffer it was given");
    u32::from_le((c.ptr[i].add(off) as *const u32).read_unaligned())
}
pub unsafe fn dev_wr_u32w(c: &Chain, i: usize, off: usize, v: u32) {
    assert!(i < c.n && c.write[i] && off + 4 <= c.len[i] as usize, "C01: device write beyond the buffer it was given / to a read-only part");
    (c.ptr[i].add(off) as *mut u32).write_unaligned(v.to_le());
}
