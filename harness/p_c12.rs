// @mount src/transport/pci/bus.rs
// @needs p_env mm_env
//
// C12 - PCI bus helpers: BAR probing without side effects, unique configuration addresses, enumeration,
// capability walking.  Functions encoded: PciRoot::{bar_info, bars, get_status_command, set_command,
// capabilities, enumerate_bus}, Cam::cam_offset, MmioCam::{read_word, write_word}, BusDeviceIterator::next,
// CapabilityIterator::next.
#![allow(unused, unsafe_op_in_unsafe_fn, clippy::all, static_mut_refs)]
use super::*;
use crate::transport::pci::__verif_p_env::{cfg0, Cfg, DF0, install_mem_bar};
use crate::transport::__verif_mm_env::*;

// @harness props=C12 tier=quick timeout=900
#[kani::proof]
#[kani::unwind(18)]
fn c12_bar_info() {
    let mut cfg = cfg0();
    // reserved command bits read as zero on real hardware
    cfg.words[1] = kani::any::<u32>() & 0xffff_077f;
    let slot: u8 = kani::any();
    kani::assume(slot < 6);
    let s = slot as usize;
    // kind: 0 memory32, 1 memory below 1MiB, 2 memory64, 3 I/O, 4 unimplemented
    let kind: u8 = kani::any();
    kani::assume(kind < 5);
    let prefetch: bool = kani::any();
    let mut exp_size: u64 = 0;
    let mut exp_addr: u64 = 0;
    match kind {
        0 | 1 => {
            let k: u32 = kani::any();
            kani::assume(k >= 4 && k <= 31);
            let m = !((1u32 << k) - 1);
            let a = kani::any::<u32>() & m;
            cfg.bar_mask[s] = m;
            cfg.words[4 + s] = a | if kind == 1 { 0b010 } else { 0 } | if prefetch { 0b1000 } else { 0 };
            exp_size = 1u64 << k;
            exp_addr = a as u64;
        }
        2 => {
            let k: u32 = kani::any();
            kani::assume(k >= 4 && k <= 63);
            let (mlo, mhi): (u32, u32) = if k < 32 { (!((1u32 << k) - 1), 0xffff_ffff) } else { (0, !((1u32 << (k - 32)) - 1)) };
            let lo = kani::any::<u32>() & mlo & 0xffff_fff0;
            cfg.bar_mask[s] = mlo & 0xffff_fff0;
            cfg.words[4 + s] = lo | 0b100 | if prefetch { 0b1000 } else { 0 };
            exp_addr = lo as u64;
            if s < 5 {
                let hi = kani::any::<u32>() & mhi;
                cfg.bar_mask[s + 1] = mhi;
                cfg.words[5 + s] = hi;
                exp_addr |= (hi as u64) << 32;
            }
            exp_size = 1u64 << k;
        }
        3 => {
            // I/O BAR: 2^k bytes; devices may hard-wire the upper 16 address bits to zero
            let k: u32 = kani::any();
            let top16: bool = kani::any();
            kani::assume(k >= 2 && k <= if top16 { 15 } else { 31 });
            let m = !((1u32 << k) - 1) & if top16 { 0x0000_ffff } else { 0xffff_ffff };
            let a = kani::any::<u32>() & m;
            cfg.bar_mask[s] = m;
            cfg.words[4 + s] = a | 1;
            exp_size = 1u64 << k;
            exp_addr = a as u64;
        }
        _ => {}
    }
    let saved = cfg.words;
    let mut root = PciRoot::new(cfg);
    let r = root.bar_info(DF0, slot);
    assert!(!root.configuration_access.unsafe_sizing, "C12: sizing pattern written while address decoding was enabled");
    assert!(!root.configuration_access.foreign_write, "C12: BAR probing wrote a register other than the command register or a BAR");
    let mut i = 0;
    while i < 16 {
        assert!(root.configuration_access.words[i] == saved[i], "C12: BAR probing did not leave the command register and all BAR registers exactly as they were");
        i += 1;
    }
    match (kind, &r) {
        (4, r) => assert!(matches!(r, Ok(None)), "C12: unimplemented BAR must be reported as absent"),
        (3, r) => {
            assert!(matches!(r, Ok(Some(BarInfo::IO { .. }))), "C12: I/O BAR kind");
            if let Ok(Some(BarInfo::IO { address, size })) = r {
                assert!(*address as u64 == exp_addr, "C12: I/O BAR address");
                assert!(*size as u64 == exp_size, "C12: I/O BAR size must be the lowest writable address bit");
            }
        }
        (2, r) if s == 5 => assert!(matches!(r, Err(PciError::InvalidBarType)), "C12: a 64-bit BAR cannot start in the last slot"),
        (_, r) => {
            assert!(matches!(r, Ok(Some(BarInfo::Memory { .. }))), "C12: memory BAR kind");
            if let Ok(Some(BarInfo::Memory { address_type, prefetchable, address, size })) = r {
                let want = match kind { 0 => MemoryBarType::Width32, 1 => MemoryBarType::Below1MiB, _ => MemoryBarType::Width64 };
                assert!(*address_type == want && *prefetchable == prefetch, "C12: memory BAR type / prefetchability");
                assert!(*address == exp_addr, "C12: memory BAR address (both halves for a 64-bit BAR)");
                assert!(*size == exp_size, "C12: memory BAR size must be the lowest writable address bit across both halves");
            }
        }
    }
    kani::cover!(kind == 2 && exp_size == 1u64 << 40 && saved[1] & 3 == 3);
    kani::cover!(kind == 3 && exp_size == 16);
    kani::cover!(kind == 2 && s == 5);
}

// bars(): a 64-bit BAR consumes two slots, every slot reported once
// @harness props=C12 tier=quick timeout=900
#[kani::proof]
#[kani::unwind(18)]
fn c12_bars() {
    let mut cfg = cfg0();
    cfg.words[1] = kani::any::<u32>() & 0xffff_077f;
    let s64: usize = kani::any();
    kani::assume(s64 < 5);
    let k: u32 = kani::any();
    kani::assume(k >= 4 && k <= 40);
    let (size, base) = install_mem_bar(&mut cfg, s64, k, true, false);
    let s32: usize = kani::any();
    kani::assume(s32 < 6 && s32 != s64 && s32 != s64 + 1);
    let (size2, base2) = install_mem_bar(&mut cfg, s32, 12, false, true);
    let saved = cfg.words;
    let mut root = PciRoot::new(cfg);
    let r = root.bars(DF0);
    assert!(r.is_ok(), "C12: bars() on well-formed BARs");
    let b = r.unwrap();
    let mut i = 0;
    while i < 6 {
        if i == s64 {
            assert!(b[i] == Some(BarInfo::Memory { address_type: MemoryBarType::Width64, prefetchable: false, address: base, size }), "C12: 64-bit BAR entry");
        } else if i == s32 {
            assert!(b[i] == Some(BarInfo::Memory { address_type: MemoryBarType::Width32, prefetchable: true, address: base2, size: size2 }), "C12: 32-bit BAR entry");
        } else {
            assert!(b[i].is_none(), "C12: the upper half of a 64-bit BAR and unimplemented BARs are not reported as BARs");
        }
        i += 1;
    }
    i = 0;
    while i < 16 {
        assert!(root.configuration_access.words[i] == saved[i], "C12: bars() did not leave configuration space as found");
        i += 1;
    }
    kani::cover!(s64 == 4 && s32 == 0);
    kani::cover!(s64 == 0 && s32 == 5);
}

// configuration addresses: distinct tuples -> distinct, aligned offsets inside the window
// @harness props=C12 tier=quick timeout=600
#[kani::proof]
#[kani::unwind(4)]
fn c12_cam_offsets() {
    let ecam: bool = kani::any();
    let cam = if ecam { Cam::Ecam } else { Cam::MmioCam };
    let a = DeviceFunction { bus: kani::any(), device: kani::any(), function: kani::any() };
    let b = DeviceFunction { bus: kani::any(), device: kani::any(), function: kani::any() };
    kani::assume(a.valid() && b.valid());
    let (ra, rb): (u8, u8) = (kani::any(), kani::any());
    kani::assume(ra % 4 == 0 && rb % 4 == 0);
    let oa = cam.cam_offset(a, ra);
    let ob = cam.cam_offset(b, rb);
    assert!(oa < cam.size() && ob < cam.size(), "C12: configuration offset outside the access window");
    assert!(oa % 4 == 0, "C12: configuration offset not word aligned");
    if oa == ob {
        assert!(a == b && ra == rb, "C12: distinct bus/device/function/register tuples map to the same configuration offset");
    }
    assert!(oa & 0xff == ra as u32, "C12: register offset not in the low byte");
    kani::cover!(a.bus == 255 && a.device == 31 && a.function == 7 && ra == 252 && ecam);
    kani::cover!(a != b && !ecam);
}

// enumeration: one step from an arbitrary iterator position over a symbolic population of the bus
#[derive(Clone, Copy)]
struct BusCfg {
    present: [bool; 16], // device d function f -> index (d % 2) * 8 + f : two devices x 8 functions modelled
    ids: [u32; 16],
    class_rev: [u32; 16],
    hdr: [u32; 16],
}
impl ConfigurationAccess for BusCfg {
    fn read_word(&self, df: DeviceFunction, off: u8) -> u32 {
        assert!(df.valid(), "C12: enumeration addressed an invalid device/function");
        if df.device >= 2 { return 0xffff_ffff; }
        let i = (df.device as usize) * 8 + df.function as usize;
        if !self.present[i] { return 0xffff_ffff; }
        match off { 0 => self.ids[i], 8 => self.class_rev[i], 12 => self.hdr[i], _ => 0 }
    }
    fn write_word(&mut self, _df: DeviceFunction, _off: u8, _data: u32) { panic!("C12: enumeration must not write configuration space") }
    unsafe fn unsafe_clone(&self) -> Self { *self }
}

// @harness props=C12 tier=quick timeout=900
#[kani::proof]
#[kani::unwind(20)]
fn c12_enum_step() {
    let cfg = BusCfg { present: kani::any(), ids: kani::any(), class_rev: kani::any(), hdr: kani::any() };
    let mut i = 0;
    while i < 16 {
        kani::assume(cfg.ids[i] != 0xffff_ffff);
        i += 1;
    }
    let bus: u8 = kani::any();
    let root = PciRoot::new(cfg);
    let mut it = root.enumerate_bus(bus);
    // arbitrary position inside the first two devices (the rest of the bus is empty in this model)
    let (d0, f0): (u8, u8) = (kani::any(), kani::any());
    kani::assume(d0 < 2 && f0 < 8);
    it.next = DeviceFunction { bus, device: d0, function: f0 };
    // reference: first present function at or after the position
    let start = d0 as usize * 8 + f0 as usize;
    let mut want = 16usize;
    i = 0;
    while i < 16 {
        if want == 16 && i >= start && cfg.present[i] { want = i; }
        i += 1;
    }
    // bound the walk over the empty remainder of the bus for the solver: 30 devices x 8 functions are
    // skipped by the real loop; only positions inside the populated part are asked for a present function
    kani::assume(want < 16);
    let r = it.next();
    assert!(r.is_some(), "C12: enumeration skipped a present function");
    let (df, info) = r.unwrap();
    assert!(df.bus == bus && df.device as usize == want / 8 && df.function as usize == want % 8, "C12: enumeration must report the first present function at or after the current position");
    assert!(info.vendor_id == cfg.ids[want] as u16 && info.device_id == (cfg.ids[want] >> 16) as u16, "C12: vendor/device id decoded wrongly");
    let cr = cfg.class_rev[want];
    assert!(info.class == (cr >> 24) as u8 && info.subclass == (cr >> 16) as u8 && info.prog_if == (cr >> 8) as u8 && info.revision == cr as u8, "C12: class/revision decoded wrongly");
    assert!(info.header_type == HeaderType::from((cfg.hdr[want] >> 16) as u8 & 0x7f), "C12: header type decoded wrongly");
    // the iterator now stands right after the reported function
    let nxt = want + 1;
    assert!(it.next.device as usize == nxt / 8 && it.next.function as usize == nxt % 8, "C12: iterator position after a reported function");
    kani::cover!(want == 15 && start == 3);
    kani::cover!(want == start && start == 8);
}

// capability walking: a well-formed list of <= 4 nodes is yielded once each, in order
// @harness props=C12 tier=quick timeout=900
#[kani::proof]
#[kani::unwind(8)]
fn c12_caps() {
    let mut cfg = cfg0();
    let n: usize = kani::any();
    kani::assume(n <= 4);
    let has_list: bool = kani::any();
    // a device that sets CAPABILITIES_LIST has a non-null capabilities pointer (well-formed list)
    kani::assume(!has_list || n >= 1);
    cfg.words[1] = if has_list { 1u32 << 20 } else { 0 } | (kani::any::<u32>() & 0xffef_ffff);
    // node offsets: symbolic, word aligned, >= 0x40, pairwise distinct
    let mut offs = [0u8; 4];
    let mut i = 0;
    while i < 4 {
        offs[i] = kani::any();
        kani::assume(offs[i] >= 0x40 && offs[i] % 4 == 0);
        let mut j = 0;
        while j < i {
            kani::assume(offs[j] != offs[i]);
            j += 1;
        }
        i += 1;
    }
    let ids: [u8; 4] = kani::any();
    let priv_hdr: [u16; 4] = kani::any();
    cfg.words[0x34 / 4] = if n > 0 { offs[0] as u32 } else { 0 } | (kani::any::<u32>() & 0xffff_ff00);
    i = 0;
    while i < 4 {
        if i < n {
            let next = if i + 1 < n { offs[i + 1] } else { 0 };
            cfg.words[(offs[i] / 4) as usize] = ids[i] as u32 | ((next as u32) << 8) | ((priv_hdr[i] as u32) << 16);
        }
        i += 1;
    }
    let root = PciRoot::new(cfg);
    let mut it = root.capabilities(DF0);
    let expect = if has_list { n } else { 0 };
    i = 0;
    while i < 5 {
        let c = it.next();
        if i < expect {
            assert!(c == Some(CapabilityInfo { offset: offs[i], id: ids[i], private_header: priv_hdr[i] }), "C12: capability walk must yield each capability of a well-formed list once, in order");
        } else {
            assert!(c.is_none(), "C12: capability walk yielded more capabilities than the list holds");
        }
        i += 1;
    }
    kani::cover!(expect == 4 && offs[1] < offs[0]);
    kani::cover!(!has_list && n == 3);
}

macro_rules! mmio_harness {
    ($(#[$m:meta])* fn $name:ident() $body:block) => {
        $(#[$m])*
        #[kani::stub(<safe_mmio::backend::volatile::Ops as safe_mmio::MmioOps>::read_u32, KOps::read_u32)]
        #[kani::stub(<safe_mmio::backend::volatile::Ops as safe_mmio::MmioOps>::write_u32, KOps::write_u32)]
        fn $name() $body
    };
}

// MmioCam touches exactly the addressed word
// @harness props=C12 tier=quick timeout=600 stubbed=mmio
mmio_harness! {
#[kani::proof]
#[kani::unwind(26)]
fn c12_mmiocam_word() {
    let ecam: bool = kani::any();
    let cam = if ecam { Cam::Ecam } else { Cam::MmioCam };
    let mut c = unsafe { MmioCam::new(block_ptr(), cam) };
    let reg: u8 = kani::any();
    kani::assume(reg % 4 == 0);
    let v: u32 = kani::any();
    unsafe { DEV[(reg / 4) as usize] = v; }
    let r = c.read_word(DF0, reg);
    assert!(r == v && tr_len() == 1 && unsafe { TR_OFF[0] == reg as usize && !TR_W[0] && TR_WIDTH[0] == 4 }, "C12: configuration read must be one 32-bit read of exactly the addressed word");
    let w: u32 = kani::any();
    c.write_word(DF0, reg, w);
    assert!(tr_len() == 2 && unsafe { TR_OFF[1] == reg as usize && TR_W[1] && TR_WIDTH[1] == 4 && TR_VAL[1] == w as u64 }, "C12: configuration write must be one 32-bit write of exactly the addressed word");
    core::mem::forget(c);
    kani::cover!(reg == 252 && ecam);
    kani::cover!(reg == 0x10 && !ecam);
}
}
