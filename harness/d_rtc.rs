// @mount src/device/rtc.rs
// @needs q_env
//
// Clock driver: request encodings, status mapping, enum decoding (C20), handshake (C08), teardown (C09).
// Functions encoded: VirtIORtc::{new, num_clocks, clock_cap, read, request}, Drop.
#![allow(unused, unsafe_op_in_unsafe_fn, clippy::all, static_mut_refs)]
use super::*;
use crate::queue::__verif_q_env::*;
use crate::transport::DeviceType;

const N: usize = 8;
static mut D_REQ: [u8; 16] = [0; 16];
static mut D_REQ_LEN: u32 = 0;
static mut D_RESP: [u8; 16] = [0; 16];
static mut D_RESP_LEN: u32 = 0;
struct RtcDev;
impl DevModel for RtcDev {
    fn on_notify(q: u16) {
        assert!(q == 0, "C20: notification for a queue the clock device does not use");
        unsafe {
            if let Some(head) = dev_take::<N>(0) {
                let c = dev_chain::<N>(0, head, false);
                assert!(c.n == 2 && !c.write[0] && c.write[1], "C20: a clock request is one readable request and one writable response");
                D_REQ_LEN = c.len[0];
                D_RESP_LEN = c.len[1];
                let mut i = 0;
                while i < 16 {
                    if (i as u32) < c.len[0] { D_REQ[i] = dev_rd(&c, 0, i); }
                    if (i as u32) < c.len[1] { dev_wr(&c, 1, i, D_RESP[i]); }
                    i += 1;
                }
                dev_complete::<N>(0, head, c.len[1]);
            }
        }
    }
}
fn status_err(s: u8) -> Option<Error> {
    match s { 0 => None, 2 => Some(Error::Unsupported), 3 | 4 => Some(Error::InvalidParam), _ => Some(Error::IoError) }
}

// @harness props=C20,C08,C09 tier=quick timeout=1800
#[kani::proof]
#[kani::unwind(50)]
fn c20_rtc() {
    lg_init_concrete();
    let offered: u64 = kani::any();
    kani::assume(offered & (1 << 28) == 0);
    let t = mt::<RtcDev>(DeviceType::Timer, offered);
    let k: usize = kani::any();
    kani::assume(k <= 3);
    unsafe { DMA_FAIL_AT = k; D_RESP = kani::any(); }
    match VirtIORtc::<THal<N>, MT<RtcDev>>::new(t) {
        Err(e) => {
            assert!(k == 1 || k == 2, "C09: construction failed although no allocation failed");
            check_failed_new(e);
        }
        Ok(mut rtc) => {
            assert!(k == 0 || k == 3, "C09: construction succeeded although an allocation failed");
            let w = check_handshake(offered, SUPPORTED_FEATURES.bits(), 1);
            let resp = unsafe { D_RESP };
            let clock: u16 = kani::any();
            let op: u8 = kani::any();
            kani::assume(op < 3);
            let se = status_err(resp[0]);
            match op {
                0 => {
                    let r = rtc.num_clocks();
                    unsafe {
                        assert!(D_REQ_LEN == 8 && D_RESP_LEN == 16 && D_REQ[0] == 0x00 && D_REQ[1] == 0x10, "C20: VIRTIO_RTC_REQ_CFG encoding (msg_type 0x1000 LE, 8-byte request, 16-byte response)");
                        assert!(D_REQ[2] == 0 && D_REQ[7] == 0, "C20: reserved request bytes must be zero");
                    }
                    match se { None => assert!(r == Ok(u16::from_le_bytes([resp[8], resp[9]])), "C20: number of clocks must be what the device reported"), Some(e) => assert!(r == Err(e), "C20: clock status mapping") }
                }
                1 => {
                    let r = rtc.clock_cap(clock);
                    unsafe {
                        assert!(D_REQ_LEN == 16 && D_RESP_LEN == 16 && D_REQ[0] == 0x01 && D_REQ[1] == 0x10 && u16::from_le_bytes([D_REQ[8], D_REQ[9]]) == clock, "C20: VIRTIO_RTC_REQ_CLOCK_CAP encoding (msg_type 0x1001, clock id at offset 8)");
                    }
                    match se {
                        Some(e) => assert!(r == Err(e), "C20: clock status mapping"),
                        None => {
                            let (ty, sm, fl) = (resp[8], resp[9], resp[10]);
                            if ty > 4 || (ty == 3 && sm > 2) {
                                assert!(r == Err(Error::Unsupported), "C20: unknown clock type / smearing variant must be rejected");
                            } else {
                                let c = r.unwrap();
                                assert!(c.kind as u8 == ty && c.alarm_capability == (fl & 1 != 0), "C20: clock capabilities must be what the device reported");
                                let want_sm = if ty == 3 { match sm { 1 => Some(SmearingVariant::NoonLinear), 2 => Some(SmearingVariant::UtcSls), _ => None } } else { None };
                                assert!(c.leap_second_smearing == want_sm, "C20: smearing variant decoding");
                            }
                        }
                    }
                }
                _ => {
                    let r = rtc.read(clock);
                    unsafe {
                        assert!(D_REQ_LEN == 16 && D_RESP_LEN == 16 && D_REQ[0] == 0x01 && D_REQ[1] == 0x00 && u16::from_le_bytes([D_REQ[8], D_REQ[9]]) == clock, "C20: VIRTIO_RTC_REQ_READ encoding (msg_type 0x0001, clock id at offset 8)");
                    }
                    match se { None => assert!(r == Ok(u64::from_le_bytes([resp[8], resp[9], resp[10], resp[11], resp[12], resp[13], resp[14], resp[15]])), "C20: clock reading must be what the device reported"), Some(e) => assert!(r == Err(e), "C20: clock status mapping") }
                }
            }
            drop(rtc);
            check_teardown(1, 2);
        }
    }
    kani::cover!(k == 0 && unsafe { D_RESP[0] } == 0);
    kani::cover!(k == 0 && unsafe { D_RESP[0] } == 5);
    kani::cover!(k == 1);
}
