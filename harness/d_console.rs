// @mount src/device/console.rs
// @needs q_env
//
// Console driver (C15) by induction over its state invariant, plus handshake (C08) and teardown (C09).
// Invariant: cursor <= pending_len <= 4096; receive_token.is_some() => cursor == pending_len and exactly one
// chain outstanding on the receive queue; receive_token.is_none() => no chain outstanding.
// Functions encoded: VirtIOConsole::{new, poll_retrieve, finish_receive, recv, send, send_bytes,
// wait_for_receive, ack_interrupt, size, emergency_write}, embedded-io Read/BufRead/ReadReady/Write impls, Drop.
#![allow(unused, unsafe_op_in_unsafe_fn, clippy::all, static_mut_refs)]
use super::*;
use crate::queue::__verif_q_env::*;

const N: usize = 2;
static mut RX_AUTO: bool = false;
static mut RX_LEN: u32 = 0;
static mut RX_BYTES: [u8; 4] = [0; 4];
static mut RX_SERVED: u32 = 0;
static mut TX_LEN: u32 = 0;
static mut TX_BYTES: [u8; 4] = [0; 4];
static mut TX_SERVED: u32 = 0;
static mut D_IND: bool = false;

/// the device fills the posted receive buffer with RX_LEN bytes (the first four are RX_BYTES)
unsafe fn rx_fill() -> bool {
    if let Some(head) = dev_take::<N>(0) {
        let c = dev_chain::<N>(0, head, D_IND);
        assert!(c.n == 1 && c.write[0] && c.len[0] == 4096, "C15: the receive request must be the driver's one 4096-byte device-writable buffer");
        let mut i = 0;
        while i < 4 {
            if (i as u32) < RX_LEN { dev_wr(&c, 0, i, RX_BYTES[i]); }
            i += 1;
        }
        dev_complete::<N>(0, head, RX_LEN);
        RX_SERVED += 1;
        true
    } else {
        false
    }
}

struct ConDev;
impl DevModel for ConDev {
    fn on_notify(q: u16) {
        unsafe {
            if q == 1 {
                if let Some(head) = dev_take::<N>(1) {
                    let c = dev_chain::<N>(1, head, D_IND);
                    assert!(c.n == 1 && !c.write[0], "C15: a send must be exactly one device-readable part");
                    TX_LEN = c.len[0];
                    let mut i = 0;
                    while i < 4 {
                        if (i as u32) < c.len[0] { TX_BYTES[i] = dev_rd(&c, 0, i); }
                        i += 1;
                    }
                    dev_complete::<N>(1, head, 0);
                    TX_SERVED += 1;
                }
            } else {
                assert!(q == 0, "C15: notification for a queue the console does not have");
                if RX_AUTO { rx_fill(); }
            }
        }
    }
}

type Con = VirtIOConsole<THal<N>, MT<ConDev>>;

/// Console state built directly: mode 0 = data pending, 1 = buffer posted (device may have completed it),
/// 2 = idle (everything consumed, nothing posted).
fn mk_state(mode: u8, completed: bool) -> (Con, usize, [u8; 4]) { mk_state_at(mode, completed, None) }
/// `fixed`: concrete (cursor, pending_len) for mode 0 / concrete chunk length for mode 1 (bulk-copy harnesses)
fn mk_state_at(mode: u8, completed: bool, fixed: Option<(usize, usize)>) -> (Con, usize, [u8; 4]) {
    lg_init_concrete();
    let mut t = mt::<ConDev>(DeviceType::Console, 0);
    t.isr = kani::any();
    unsafe { DRIVER_OK_SEEN = true; }
    let ev: bool = kani::any();
    let receiveq = VirtQueue::new(&mut t, QUEUE_RECEIVEQ_PORT_0, false, ev, false).unwrap();
    let transmitq = VirtQueue::new(&mut t, QUEUE_TRANSMITQ_PORT_0, false, ev, false).unwrap();
    let mut con = VirtIOConsole {
        transport: t,
        negotiated_features: Features::from_bits_retain(kani::any::<u64>() & SUPPORTED_FEATURES.bits() & !(1 << 28)),
        receiveq,
        transmitq,
        queue_buf_rx: Box::new([0; PAGE_SIZE]),
        cursor: 0,
        pending_len: 0,
        receive_token: None,
    };
    let bytes: [u8; 4] = kani::any();
    let mut unread = 0usize;
    if mode == 0 {
        // 1..=6 unread bytes, ending at the start of the page, in the middle, or at the very end of the page
        let (cur, pend): (usize, usize) = if let Some(f) = fixed { f } else { { let u: usize = kani::any(); kani::assume(u >= 1 && u <= 6); let pend = match kani::any::<u8>() % 3 { 0 => u, 1 => 100, _ => 4096 }; (pend - u, pend) } };
        con.cursor = cur;
        con.pending_len = pend;
        let mut i = 0;
        while i < 4 {
            if cur + i < pend { con.queue_buf_rx[cur + i] = bytes[i]; }
            i += 1;
        }
        unread = pend - cur;
    } else {
        let cur: usize = match kani::any::<u8>() % 4 { 0 => 0, 1 => 1, 2 => 4096, _ => 77 };
        con.cursor = cur;
        con.pending_len = cur;
        if mode == 1 {
            con.poll_retrieve().unwrap();
            assert!(con.receive_token.is_some() && q_num_used(&con.receiveq) == 1, "C15: poll_retrieve must post exactly one receive buffer when everything was consumed");
            if completed {
                let l: u32 = if let Some(f) = fixed { f.1 as u32 } else { match kani::any::<u8>() % 6 { 0 => 1, 1 => 2, 2 => 4, 3 => 5, 4 => 4095, _ => 4096 } };
                unsafe {
                    RX_LEN = l;
                    RX_BYTES = bytes;
                    assert!(rx_fill(), "C15: posted buffer not visible to the device");
                }
                unread = l as usize;
            }
        }
    }
    (con, unread, bytes)
}

fn inv(con: &Con) {
    assert!(con.cursor <= con.pending_len && con.pending_len <= PAGE_SIZE, "C15: cursor/pending_len out of range");
    let out = q_num_used(&con.receiveq);
    assert!(out <= 1, "C15: more than one receive buffer outstanding");
    assert!(con.receive_token.is_some() == (out == 1), "C15: receive token does not match the outstanding receive request");
    if con.receive_token.is_some() {
        assert!(con.cursor == con.pending_len, "C15: receive buffer re-posted while previously received data is still unread");
    }
}

fn step_body(mode: u8, completed: bool, op: u8) { step_body_at(mode, completed, op, None, 0) }
fn step_body_at(mode: u8, completed: bool, op: u8, fixed: Option<(usize, usize)>, nfix: usize) {
    let (mut con, unread, bytes) = mk_state_at(mode, completed, fixed);
    inv(&con);
    let pos0 = (con.cursor, con.pending_len);
    let posted0 = unsafe { LG_N };
    match op {
        0 | 1 => {
            let pop = op == 1;
            let r = con.recv(pop);
            if unread == 0 {
                assert!(r == Ok(None), "C15: recv must return nothing when the device has supplied no unread byte");
            } else {
                assert!(r == Ok(Some(bytes[0])), "C15: recv must return the next unread byte of the device's stream");
                let left = con.pending_len - con.cursor;
                if pop {
                    assert!(left == unread - 1, "C15: recv(pop) must consume exactly one byte");
                    if unread >= 2 {
                        let r2 = con.recv(false);
                        assert!(r2 == Ok(Some(bytes[1])), "C15: bytes must be delivered in order, none skipped or duplicated");
                    }
                } else {
                    assert!(left == unread, "C15: a peek must not consume data");
                }
            }
        }
        2 => {
            kani::assume(unread > 0);
            let n: usize = nfix;
            let mut out = [0u8; 4];
            let r = ::embedded_io::Read::read(&mut con, &mut out[..nfix]);
            let want = if n < unread { n } else { unread };
            assert!(r == Ok(want), "C15: read must return min(buffer size, unread bytes)");
            let k: usize = kani::any();
            kani::assume(k < 4);
            if k < want { assert!(out[k] == bytes[k], "C15: read must return the next unread bytes in order"); }
            assert!(con.pending_len - con.cursor == unread - want, "C15: read must consume exactly what it returned");
        }
        3 => {
            kani::assume(unread > 0);
            let s = ::embedded_io::BufRead::fill_buf(&mut con).unwrap();
            assert!(s.len() == unread, "C15: fill_buf must expose exactly the unread bytes");
            let k: usize = kani::any();
            kani::assume(k < 4);
            if k < unread { assert!(s[k] == bytes[k], "C15: fill_buf contents"); }
            let amt: usize = nfix;
            kani::assume(amt <= unread);
            ::embedded_io::BufRead::consume(&mut con, amt);
            assert!(con.pending_len - con.cursor == unread - amt, "C15: consume must advance by exactly the amount");
        }
        4 => {
            let r = ::embedded_io::ReadReady::read_ready(&mut con);
            assert!(r == Ok(unread > 0), "C15: read_ready must agree with the presence of unread data");
            assert!(con.pending_len - con.cursor == unread, "C15: read_ready must not consume data");
        }
        _ => {
            let isr = con.transport.isr;
            let r = con.ack_interrupt();
            if isr & 1 == 0 {
                assert!(r == Ok(false) && (con.cursor, con.pending_len) == pos0, "C15: ack_interrupt without a queue interrupt must not touch the stream");
            } else {
                assert!(r == Ok(mode == 1 && completed), "C15: ack_interrupt must report whether new data was retrieved");
                assert!(con.pending_len - con.cursor == unread, "C15: ack_interrupt must not consume data");
                if mode == 1 && completed {
                    assert!(con.cursor == 0 && con.receive_token.is_none(), "C15: retrieved chunk must be read from its start");
                    let k: usize = kani::any();
                    kani::assume(k < 4);
                    if k < unread { assert!(con.queue_buf_rx[k] == bytes[k], "C15: retrieved chunk must hold exactly the bytes the device wrote"); }
                }
            }
        }
    }
    inv(&con);
    // a new receive buffer may only have been posted once everything was consumed
    if unsafe { LG_N } > posted0 {
        assert!(con.cursor == con.pending_len, "C15: receive buffer re-posted while data is pending");
    }
    core::mem::forget(con);
    kani::cover!((unread >= 1 || mode == 2 || !completed) && bytes[0] == 0x41);
    kani::cover!(bytes[1] == 0x0a);
}

macro_rules! step {
    ($name:ident, $mode:expr, $completed:expr, $op:expr, $tier:ident) => {
        #[kani::proof]
        #[kani::unwind(12)]
        fn $name() { step_body($mode, $completed, $op) }
    };
}

// @harness props=C15 tier=quick timeout=1200
#[kani::proof]
#[kani::unwind(12)]
fn c15_pending_recv_pop() { step_body(0, false, 1) }

// @harness props=C15 tier=quick timeout=1200
#[kani::proof]
#[kani::unwind(12)]
fn c15_completed_recv_pop() { step_body(1, true, 1) }

// @harness props=C15 tier=quick timeout=1200
#[kani::proof]
#[kani::unwind(12)]
fn c15_completed_ack_interrupt() { step_body(1, true, 5) }

// @harness props=C15 tier=thorough timeout=1200
#[kani::proof]
#[kani::unwind(12)]
fn c15_pending_recv_peek() { step_body(0, false, 0) }

// @harness props=C15 tier=thorough timeout=1200
#[kani::proof]
#[kani::unwind(12)]
fn c15_completed_recv_peek() { step_body(1, true, 0) }

// @harness props=C15 tier=thorough timeout=1200
#[kani::proof]
#[kani::unwind(12)]
fn c15_waiting_recv_pop() { step_body(1, false, 1) }

// @harness props=C15 tier=thorough timeout=1200
#[kani::proof]
#[kani::unwind(12)]
fn c15_idle_recv_pop() { step_body(2, false, 1) }

// @harness props=C15 tier=thorough timeout=1200
#[kani::proof]
#[kani::unwind(12)]
fn c15_completed_read_ready() { step_body(1, true, 4) }

// @harness props=C15 tier=thorough timeout=1200
#[kani::proof]
#[kani::unwind(12)]
fn c15_waiting_ack_interrupt() { step_body(1, false, 5) }


// bulk copies: positions, chunk length and read size are instantiation parameters (constant-size copies)
// @harness props=C15 tier=quick timeout=1200
#[kani::proof]
#[kani::unwind(12)]
fn c15_pending_read_end_n2() { step_body_at(0, false, 2, Some((4090, 4096)), 2) }
// @harness props=C15 tier=thorough timeout=1200
#[kani::proof]
#[kani::unwind(12)]
fn c15_pending_read_last_n4() { step_body_at(0, false, 2, Some((4095, 4096)), 4) }
// @harness props=C15 tier=quick timeout=1200
#[kani::proof]
#[kani::unwind(12)]
fn c15_pending_fill_consume_9_3() { step_body_at(0, false, 3, Some((0, 9)), 3) }
// @harness props=C15 tier=quick timeout=1200
#[kani::proof]
#[kani::unwind(12)]
fn c15_pending_fill_consume_all() { step_body_at(0, false, 3, Some((100, 103)), 3) }

// (A blocking read against a serve-on-notify device was tried: the wait loop around pop_used exhausts memory
// even at unwind 8; the wait is decomposed instead: poll_retrieve posts [mk_state mode 1], finish_receive retrieves
// [ack_interrupt / recv harnesses], the copy out is checked from the pending state.)

// ---- transmit ---------------------------------------------------------------------------------------------
// @harness props=C15 tier=quick timeout=1200
#[kani::proof]
#[kani::unwind(12)]
fn c15_send() {
    let (mut con, _u, _b) = mk_state(2, false);
    let data: [u8; 4] = kani::any();
    let n: usize = kani::any();
    kani::assume(n >= 1 && n <= 4);
    let single: bool = kani::any();
    let r = if single { con.send(data[0]) } else { con.send_bytes(&data[..n]) };
    assert!(r.is_ok(), "C15: send");
    let want = if single { 1 } else { n };
    unsafe {
        assert!(TX_SERVED == 1 && TX_LEN as usize == want, "C15: every send must place exactly the caller's bytes on the transmit queue");
        let k: usize = kani::any();
        kani::assume(k < 4);
        if k < want { assert!(TX_BYTES[k] == data[k], "C15: transmitted bytes differ from the caller's"); }
    }
    assert!(q_num_used(&con.transmitq) == 0, "C15: transmit request consumed");
    // embedded-io write: empty buffer sends nothing
    let w = ::embedded_io::Write::write(&mut con, &data[..0]);
    assert!(w == Ok(0) && unsafe { TX_SERVED } == 1, "C15: writing an empty buffer must send nothing");
    core::mem::forget(con);
    kani::cover!(single);
    kani::cover!(!single && n == 4);
}

// ---- handshake, feature gating, teardown, failed construction ---------------------------------------------------
// @harness props=C08,C09,C15 tier=quick timeout=1800
#[kani::proof]
#[kani::unwind(50)]
fn c08_console_new() {
    lg_init_concrete();
    let offered: u64 = kani::any();
    kani::assume(offered & (1 << 28) == 0);
    let mut t = mt::<ConDev>(DeviceType::Console, offered);
    t.cfg[0] = kani::any();
    t.cfg[2] = kani::any();
    let k: usize = kani::any();
    kani::assume(k <= 5);
    unsafe { DMA_FAIL_AT = k; }
    let r = VirtIOConsole::<THal<N>, MT<ConDev>>::new(t);
    match r {
        Err(e) => {
            assert!(k >= 1 && k <= 4 && e == Error::DmaError, "C09: construction may only fail with DmaError when an allocation failed");
            assert!(dma_live_count() == 0, "C09: DMA region leaked by a failed construction");
            assert!(ev_find(EV_SET_STATUS, Some(15), 0).is_none(), "C08/C09: DRIVER_OK set by a failed construction (the device is live while the memory of its queues is released)");
        }
        Ok(mut con) => {
            assert!(k == 0 || k == 5, "C09: construction succeeded although an allocation failed");
            let w = check_handshake(offered, SUPPORTED_FEATURES.bits(), 2);
            assert!(q_flags(&con.receiveq) == (false, w & (1 << 29) != 0, w & (1 << 33) != 0) && q_flags(&con.transmitq) == q_flags(&con.receiveq), "C08: queue mechanisms must follow the negotiated features");
            inv(&con);
            assert!(con.receive_token.is_some(), "C15: a receive buffer is posted after construction");
            // feature-gated configuration fields
            let s = con.size();
            if w & 1 != 0 {
                assert!(s == Ok(Some(Size { columns: con.transport.cfg[0] as u16, rows: con.transport.cfg[2] as u16 })), "C08: console size from configuration");
            } else {
                assert!(s == Ok(None), "C08: console size must not be read unless the SIZE feature was negotiated");
            }
            let e = con.emergency_write(7);
            assert!(e.is_ok() == (w & 4 != 0), "C08: emergency write must be refused unless negotiated");
            drop(con);
            unsafe {
                let u0 = ev_find(EV_QUEUE_UNSET, Some(0), 0);
                let u1 = ev_find(EV_QUEUE_UNSET, Some(1), 0);
                let reset = ev_find(EV_RESET_ON_DROP, None, 0);
                let mut i = 0;
                while i < MAXEV {
                    if i < EV_N && EVK[i] == EV_DMA_DEALLOC {
                        assert!((u0.is_some() && u1.is_some() && u0.unwrap() < i && u1.unwrap() < i) || (reset.is_some() && reset.unwrap() < i), "C09: queue memory released while the device was live on that queue");
                    }
                    i += 1;
                }
                assert!(dma_live_count() == 0 && DMA_CNT == 4, "C09: every DMA region must be returned exactly once");
            }
        }
    }
    kani::cover!(k == 3);
    kani::cover!(k == 0 && offered & 5 == 5);
}
