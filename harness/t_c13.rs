// @mount src/transport/mmio.rs
// @needs mm_env
//
// C13 (MMIO half) - configuration access is bounds-checked; multi-field reads are never torn.
// Functions encoded: MmioTransport::{read_config_space, write_config_space, read_config_generation},
// Transport::read_consistent, and the config readers of blk / vsock / console / net / 9p through their closures.
#![allow(unused, unsafe_op_in_unsafe_fn, clippy::all, static_mut_refs)]
use super::*;
use crate::transport::__verif_mm_env::*;

macro_rules! mmio_harness {
    ($(#[$m:meta])* fn $name:ident() $body:block) => {
        $(#[$m])*
        #[kani::stub(<safe_mmio::backend::volatile::Ops as safe_mmio::MmioOps>::read_u8, KOps::read_u8)]
        #[kani::stub(<safe_mmio::backend::volatile::Ops as safe_mmio::MmioOps>::read_u16, KOps::read_u16)]
        #[kani::stub(<safe_mmio::backend::volatile::Ops as safe_mmio::MmioOps>::read_u32, KOps::read_u32)]
        #[kani::stub(<safe_mmio::backend::volatile::Ops as safe_mmio::MmioOps>::read_u64, KOps::read_u64)]
        #[kani::stub(<safe_mmio::backend::volatile::Ops as safe_mmio::MmioOps>::write_u8, KOps::write_u8)]
        #[kani::stub(<safe_mmio::backend::volatile::Ops as safe_mmio::MmioOps>::write_u16, KOps::write_u16)]
        #[kani::stub(<safe_mmio::backend::volatile::Ops as safe_mmio::MmioOps>::write_u32, KOps::write_u32)]
        #[kani::stub(<safe_mmio::backend::volatile::Ops as safe_mmio::MmioOps>::write_u64, KOps::write_u64)]
        fn $name() $body
    };
}

fn mk_sized(size: usize) -> MmioTransport<'static> {
    unsafe {
        DEV[0] = MAGIC_VALUE;
        DEV[1] = 2;
        DEV[2] = 2;
    }
    let t = unsafe { MmioTransport::new(NonNull::new(block_ptr() as *mut VirtIOHeader).unwrap(), size) }.unwrap();
    tr_reset();
    t
}

fn cfg_bounds_body<T: FromBytes + IntoBytes + Immutable + Copy>(tsize: usize, talign: usize) {
    // configuration window of 0..=32 bytes after the 0x100-byte register block
    let win: usize = kani::any();
    kani::assume(win <= 32);
    let mut t = mk_sized(0x100 + win);
    let off: usize = kani::any();
    kani::assume(off % talign == 0);
    let write: bool = kani::any();
    let r: Result<(), Error> = if write {
        let v: T = T::read_from_bytes(&[0x5au8; 8][..tsize]).unwrap();
        t.write_config_space::<T>(off, v)
    } else {
        t.read_config_space::<T>(off).map(|_| ())
    };
    let inside = (off as u128) + (tsize as u128) <= win as u128;
    if !inside {
        assert!(r == Err(Error::ConfigSpaceTooSmall), "C13: access not wholly inside the configuration window must fail with ConfigSpaceTooSmall");
        assert!(tr_len() == 0, "C13: failed configuration access must not touch the device");
    } else {
        assert!(r.is_ok(), "C13: access inside the configuration window must succeed");
        let mut covered = 0usize;
        let mut i = 0;
        while i < MAXTR {
            if i < tr_len() {
                let (o, w, wd) = unsafe { (TR_OFF[i], TR_W[i], TR_WIDTH[i] as usize) };
                assert!(w == write, "C13: wrong access direction");
                assert!(o >= 0x100 + off && o + wd <= 0x100 + off + tsize, "C13: access touched bytes outside the requested field");
                covered += wd;
            }
            i += 1;
        }
        assert!(covered == tsize, "C13: access must touch exactly the bytes of the field");
    }
    core::mem::forget(t);
    kani::cover!(inside && off + tsize == win && win > 0);
    kani::cover!(!inside && off <= win && off + tsize > win);
    kani::cover!(off > usize::MAX - 8);
}

// @harness props=C13 tier=quick timeout=900 stubbed=mmio
mmio_harness! {
#[kani::proof]
#[kani::unwind(26)]
fn c13_bounds_mmio_u32() { cfg_bounds_body::<u32>(4, 4) }
}

// @harness props=C13 tier=thorough timeout=900 stubbed=mmio
mmio_harness! {
#[kani::proof]
#[kani::unwind(26)]
fn c13_bounds_mmio_u16() { cfg_bounds_body::<u16>(2, 2) }
}

// @harness props=C13 tier=quick timeout=900 stubbed=mmio
mmio_harness! {
#[kani::proof]
#[kani::unwind(26)]
fn c13_bounds_mmio_u8() { cfg_bounds_body::<u8>(1, 1) }
}

// @harness props=C13 tier=quick timeout=900 stubbed=mmio
mmio_harness! {
#[kani::proof]
#[kani::unwind(26)]
fn c13_bounds_mmio_mac() { cfg_bounds_body::<[u8; 6]>(6, 1) }
}

// ---- torn reads: the configuration is a function of the generation; the device may bump the generation
// between any two register reads (symbolic schedule, at most two bumps).  GenT serves reads accordingly. ----
pub struct GenT {
    pub reads: core::cell::Cell<u32>,
    pub generation: core::cell::Cell<u32>,
    pub bump_at: [u32; 2], // the generation changes right before the read with this ordinal
    pub cfg: [[u32; 4]; 3], // configuration words under generation 0, 1, 2
    pub dtype: DeviceType,
}
impl GenT {
    fn tick(&self) {
        let n = self.reads.get();
        if n == self.bump_at[0] || n == self.bump_at[1] {
            self.generation.set(self.generation.get() + 1);
        }
        self.reads.set(n + 1);
    }
}
impl Transport for GenT {
    fn device_type(&self) -> DeviceType { self.dtype }
    fn read_device_features(&mut self) -> u64 { 0 }
    fn write_driver_features(&mut self, _f: u64) {}
    fn max_queue_size(&mut self, _q: u16) -> u32 { 0 }
    fn notify(&mut self, _q: u16) {}
    fn get_status(&self) -> DeviceStatus { DeviceStatus::empty() }
    fn set_status(&mut self, _s: DeviceStatus) {}
    fn set_guest_page_size(&mut self, _g: u32) {}
    fn requires_legacy_layout(&self) -> bool { false }
    fn queue_set(&mut self, _q: u16, _s: u32, _d: PhysAddr, _a: PhysAddr, _u: PhysAddr) {}
    fn queue_unset(&mut self, _q: u16) {}
    fn queue_used(&mut self, _q: u16) -> bool { false }
    fn ack_interrupt(&mut self) -> InterruptStatus { InterruptStatus::empty() }
    fn read_config_generation(&self) -> u32 {
        self.tick();
        self.generation.get()
    }
    fn read_config_space<T: FromBytes + IntoBytes>(&self, offset: usize) -> crate::Result<T> {
        self.tick();
        let g = self.generation.get() as usize;
        assert!(g < 3 && offset + core::mem::size_of::<T>() <= 16 && offset % 4 + core::mem::size_of::<T>() <= 4, "harness: config model range");
        let w = self.cfg[g][offset / 4] >> (8 * (offset % 4));
        let bytes = w.to_le_bytes();
        Ok(T::read_from_bytes(&bytes[..core::mem::size_of::<T>()]).unwrap())
    }
    fn write_config_space<T: IntoBytes + Immutable>(&mut self, _o: usize, _v: T) -> crate::Result<()> { Ok(()) }
}
fn gen_t() -> GenT {
    let b: [u32; 2] = kani::any();
    GenT { reads: core::cell::Cell::new(0), generation: core::cell::Cell::new(0), bump_at: b, cfg: kani::any(), dtype: DeviceType::Block }
}

// The default read_consistent on the trait, driven exactly the way blk / vsock read their 64-bit values.
// @harness props=C13 tier=quick timeout=900
#[kani::proof]
#[kani::unwind(8)]
fn c13_consistent_u64_pair() {
    let t = gen_t();
    let v = t.read_consistent(|| {
        Ok((t.read_config_space::<u32>(0)? as u64) | ((t.read_config_space::<u32>(4)? as u64) << 32))
    }).unwrap();
    let val = |g: usize| (t.cfg[g][0] as u64) | ((t.cfg[g][1] as u64) << 32);
    assert!(v == val(0) || v == val(1) || v == val(2), "C13: value assembled from several configuration reads is not one the device exposed under a single generation");
    kani::cover!(t.generation.get() == 2 && v == val(2) && val(2) != val(1) && val(1) != val(0));
    kani::cover!(t.generation.get() == 1 && t.bump_at[0] == 2);
}

// 6-byte MAC read in one call (net) and the (cols, rows) pair of the console.
// @harness props=C13 tier=quick timeout=900
#[kani::proof]
#[kani::unwind(8)]
fn c13_consistent_pair_u16() {
    let t = gen_t();
    let v = t.read_consistent(|| Ok((t.read_config_space::<u16>(0)?, t.read_config_space::<u16>(2)?))).unwrap();
    let val = |g: usize| (t.cfg[g][0] as u16, (t.cfg[g][0] >> 16) as u16);
    assert!(v == val(0) || v == val(1) || v == val(2), "C13: value assembled from several configuration reads is not one the device exposed under a single generation");
    kani::cover!(t.generation.get() == 2 && v == val(2) && val(2) != val(1));
}

// read_consistent on the real MMIO generation register
// @harness props=C13 tier=quick timeout=900 stubbed=mmio
mmio_harness! {
#[kani::proof]
#[kani::unwind(26)]
fn c13_consistent_mmio_register() {
    let t = mk_sized(0x110);
    let (g0, g1): (u32, u32) = (kani::any(), kani::any());
    unsafe { DEV[0xfc / 4] = g0; DEV[0x100 / 4] = kani::any(); }
    // the device changes generation exactly once, during the first attempt
    let first = core::cell::Cell::new(true);
    let r = t.read_consistent(|| {
        let v = t.read_config_space::<u32>(0)?;
        if first.get() { first.set(false); unsafe { DEV[0xfc / 4] = g1; } }
        Ok(v)
    });
    assert!(r.is_ok(), "C13: consistent read must succeed");
    let n = tr_len();
    if g0 != g1 {
        assert!(n == 6, "C13: a generation change during the read must cause exactly one retry here");
    } else {
        assert!(n == 3, "C13: generation read before and after the field read");
    }
    assert!(unsafe { TR_OFF[0] == 0xfc && TR_OFF[1] == 0x100 && TR_OFF[2] == 0xfc }, "C13: generation must be read before and after the configuration fields");
    core::mem::forget(t);
    kani::cover!(g0 != g1);
    kani::cover!(g0 == g1);
}
}
