#!/usr/bin/env python3
"""E2 'mir-order' (C02): store-ordering facts of src/queue.rs decided by an SMT solver over the MIR.

  order.py <overlay dir> <log dir>

1. dump the MIR of the overlay crate with the nightly toolchain (`-Zunpretty=mir`), regenerated on every run;
2. for every method of `impl VirtQueue` build the basic-block graph with *statement-level* events:
     DEVSTORE  a store through a pointer derived from the `desc` / `avail` NonNull fields of VirtQueue
               (ring slot, descriptor, avail.flags, avail.used_event), or a call to a method that may do one
     IDXSTORE  Atomic::<u16>::store to the `idx` field of the available ring (or a call that may do one)
     FENCE(o)  core::sync::atomic::fence with ordering o
   field numbers are read from the struct definitions in the current source, not hard-coded;
3. ask z3 (and cvc5 on the same SMT-LIB text) for a control-flow path that violates
     Q1 no device-visible store after the index store before return          (add)
     Q2 between every device-visible store and the index store there is a fence >= Release,
        or the index store itself is >= Release                               (add)
     Q3 every path to the index store passes a store to avail.ring            (add)
     Q4 at most one index store per call                                      (add)
     Q5 no other method reaches an index store except through add()           (all others)
   unsat = holds on every path; sat = the offending block/statement sequence, re-checked by a plain graph walk.
Writes <log dir>/mir_order.json.
"""
import hashlib, json, os, re, subprocess, sys, time

VERIF = os.path.dirname(os.path.dirname(os.path.abspath(__file__)))
sys.path.insert(0, "/opt/veriftools/pyvenv/lib/python3.11/site-packages")
try:
    import z3
except ImportError:
    z3 = None

REL_OK = {"Release", "AcqRel", "SeqCst"}


def fail(logdir, msg):
    json.dump({"status": "error", "error": msg, "queries": 0, "solver_s": 0}, open(os.path.join(logdir, "mir_order.json"), "w"))
    print("mir-order: ERROR " + msg)
    sys.exit(0)


def struct_fields(src, name):
    m = re.search(r"struct\s+%s\b[^{;]*\{(.*?)\n\}" % re.escape(name), src, re.S)
    if not m: return None
    body = re.sub(r"//[^\n]*", "", m.group(1))
    body = re.sub(r"#\[[^\]]*\]", "", body)
    fields = []
    depth = 0; cur = ""
    for ch in body:
        if ch in "<([": depth += 1
        if ch in ">)]": depth -= 1
        if ch == "," and depth == 0:
            fields.append(cur); cur = ""
        else:
            cur += ch
    if cur.strip(): fields.append(cur)
    out = []
    for f in fields:
        mm = re.match(r"\s*(?:pub(?:\([^)]*\))?\s+)?(\w+)\s*:\s*(.*)", f.strip(), re.S)
        if mm: out.append((mm.group(1), " ".join(mm.group(2).split())))
    return out


def parse_functions(mir):
    fns = {}
    for m in re.finditer(r"^fn queue::<impl at src/queue\.rs:\d+:\d+: \d+:\d+>::(\w+)\((.*?)\) -> .*? \{\n(.*?)^\}\n", mir, re.S | re.M):
        name, params, body = m.group(1), m.group(2), m.group(3)
        if not re.match(r"_1: &(mut )?VirtQueue<H, SIZE>", params):
            continue
        blocks = {}
        for bm in re.finditer(r"^    (bb\d+)( \(cleanup\))?: \{\n(.*?)^    \}", body, re.S | re.M):
            stmts = [l.strip() for l in bm.group(3).splitlines() if l.strip()]
            blocks[bm.group(1)] = {"stmts": stmts, "cleanup": bool(bm.group(2))}
        fns[name] = blocks
    return fns


def successors(term, blocks):
    if term.startswith("return") or term.startswith("unreachable") or term.startswith("resume"):
        return []
    tgt = term.split("->", 1)[1] if "->" in term else term
    # ignore unwind edges: a panic ends the call without returning to the caller's publication logic
    tgt = re.sub(r"unwind:? bb\d+", "", tgt)
    return [s for s in re.findall(r"bb\d+", tgt) if s in blocks]


def analyse(fn_blocks, avail_idx_field, avail_ring_field, summaries, self_name):
    """Return per block list of events (kind, detail, stmt_index, stmt_text)."""
    src_local, devptr, devref, const_ord = {}, {}, {}, {}
    for b, blk in fn_blocks.items():
        for l in blk["stmts"]:
            mm = re.match(r"(_\d+) = copy \(\(\*_1\)\.\d+: (.*)\);", l)
            if mm:
                ty = mm.group(2)
                if re.search(r"NonNull<.*AvailRing", ty): src_local[mm.group(1)] = "avail"
                elif re.search(r"NonNull<\[.*Descriptor\]>", ty): src_local[mm.group(1)] = "desc"
            mm = re.match(r"(_\d+) = NonNull::<.*>::as_ptr\((?:move|copy) (_\d+)\)", l)
            if mm and mm.group(2) in src_local:
                devptr[mm.group(1)] = src_local[mm.group(2)]
            mm = re.match(r"(_\d+) = (?:copy|move) (_\d+);", l)
            if mm and mm.group(2) in devptr:
                devptr[mm.group(1)] = devptr[mm.group(2)]
            mm = re.match(r"(_\d+) = core::sync::atomic::Ordering::(\w+);", l)
            if mm: const_ord[mm.group(1)] = mm.group(2)
    for b, blk in fn_blocks.items():
        for l in blk["stmts"]:
            mm = re.match(r"(_\d+) = &(?:mut |raw (?:mut|const) )?\(\(\*(_\d+)\)\.(\d+): (.*)\);", l)
            if mm and mm.group(2) in devptr:
                devref[mm.group(1)] = (devptr[mm.group(2)], int(mm.group(3)))
            mm = re.match(r"(_\d+) = &(?:mut |raw (?:mut|const) )?\(\*(_\d+)\)", l)
            if mm and mm.group(2) in devptr and mm.group(1) not in devref:
                devref[mm.group(1)] = (devptr[mm.group(2)], -1)
    ev = {}
    for b, blk in fn_blocks.items():
        es = []
        for k, l in enumerate(blk["stmts"]):
            # direct store through a device pointer
            mm = re.match(r"\(\(\*(_\d+)\)\.(\d+): .*?\)(\[.*?\])? = ", l) or re.match(r"\(\*(_\d+)\)()(\[.*?\])? = ", l)
            if mm and mm.group(1) in devptr:
                which = devptr[mm.group(1)]
                fld = int(mm.group(2)) if mm.group(2) else -1
                if which == "avail" and fld == avail_idx_field:
                    es.append(("IDXSTORE", "Relaxed", k, l))   # plain (non-atomic) store of the index
                else:
                    es.append(("DEVSTORE", "avail.ring" if (which == "avail" and fld == avail_ring_field) else which, k, l))
            mm = re.search(r"Atomic::<u16>::store\((?:move|copy) (_\d+), .*?, (?:move|copy) (_\d+)\)", l)
            if mm and mm.group(1) in devref:
                which, fld = devref[mm.group(1)]
                o = const_ord.get(mm.group(2), "?")
                if which == "avail" and fld == avail_idx_field:
                    es.append(("IDXSTORE", o, k, l))
                else:
                    es.append(("DEVSTORE", "%s.%d" % (which, fld), k, l))
            elif re.search(r"Atomic::<u16>::(store|swap|fetch_\w+|compare_exchange\w*)\(", l) and not mm:
                mm2 = re.search(r"Atomic::<u16>::\w+\((?:move|copy) (_\d+)", l)
                if mm2 and mm2.group(1) in devref:
                    which, fld = devref[mm2.group(1)]
                    es.append(("IDXSTORE" if (which == "avail" and fld == avail_idx_field) else "DEVSTORE", "?", k, l))
            mm = re.search(r"= (?:core::sync::atomic::)?fence\((?:move|copy) (_\d+)\)", l)
            if mm:
                es.append(("FENCE", const_ord.get(mm.group(1), "?"), k, l))
            mm = re.search(r"= VirtQueue::<H, SIZE>::(\w+)\(", l)
            if mm and mm.group(1) != self_name:
                s = summaries.get(mm.group(1), {"dev": False, "idx": False})
                if s["idx"]: es.append(("IDXSTORE", "call:" + mm.group(1), k, l))
                if s["dev"]: es.append(("DEVSTORE", "call:" + mm.group(1), k, l))
        ev[b] = es
    return ev


class PathEnc:
    """SMT encoding of a simple control-flow path bb0 -> ... (each block at most once)."""
    def __init__(self, blocks):
        self.names = sorted([b for b in blocks if not blocks[b]["cleanup"]], key=lambda x: int(x[2:]))
        self.succ = {b: [s for s in successors(blocks[b]["stmts"][-1], blocks) if s in self.names] for b in self.names}
        self.on = {b: z3.Bool("on_" + b) for b in self.names}
        self.pos = {b: z3.Int("pos_" + b) for b in self.names}
        self.edge = {(b, c): z3.Bool("e_%s_%s" % (b, c)) for b in self.names for c in self.succ[b]}
        self.rets = [b for b in self.names if blocks[b]["stmts"][-1].startswith("return")]
        c = []
        c += [self.on["bb0"], self.pos["bb0"] == 0]
        for b in self.names:
            outs = [self.edge[(b, x)] for x in self.succ[b]]
            ins = [self.edge[(a, b)] for a in self.names if b in self.succ[a]]
            c.append(z3.Implies(z3.Not(self.on[b]), z3.And([z3.Not(x) for x in outs]) if outs else True))
            c += [z3.Not(z3.And(outs[i], outs[j])) for i in range(len(outs)) for j in range(i + 1, len(outs))]
            if b != "bb0":
                c.append(self.on[b] == (z3.Or(ins) if ins else False))
                c += [z3.Not(z3.And(ins[i], ins[j])) for i in range(len(ins)) for j in range(i + 1, len(ins))]
            for x in self.succ[b]:
                c.append(z3.Implies(self.edge[(b, x)], z3.And(self.on[b], self.on[x], self.pos[x] == self.pos[b] + 1)))
        self.base = [x for x in c if x is not True]
        self.full = [z3.Implies(self.on[b], z3.Or([self.edge[(b, x)] for x in self.succ[b]])) for b in self.names
                     if b not in self.rets and self.succ[b]]
        self.full.append(z3.Or([self.on[r] for r in self.rets]) if self.rets else False)

    def before(self, eb, ek, fb, fk):
        """event (eb,ek) strictly before (fb,fk) on the path"""
        if eb == fb: return z3.And(self.on[eb], ek < fk)
        return z3.And(self.on[eb], self.on[fb], self.pos[eb] < self.pos[fb])


def solve(enc, extra, complete_path, name, smt_dir, stats):
    s = z3.Solver()
    s.add(enc.base)
    if complete_path: s.add(enc.full)
    s.add(extra)
    t0 = time.time()
    r = s.check()
    stats["solver_s"] += time.time() - t0
    stats["queries"] += 1
    smt = "(set-logic ALL)\n" + s.to_smt2()
    p = os.path.join(smt_dir, name + ".smt2")
    open(p, "w").write(smt)
    # second solver on the same text
    other = None
    try:
        t0 = time.time()
        o = subprocess.run(["cvc5", "--lang", "smt2", p], stdout=subprocess.PIPE, stderr=subprocess.STDOUT, text=True, timeout=120)
        stats["solver_s"] += time.time() - t0
        other = o.stdout.strip().splitlines()[0] if o.stdout.strip() else "?"
        if "(error" in o.stdout: other = "error"
    except Exception as e:
        other = "unavailable"
    path = None
    if r == z3.sat:
        m = s.model()
        onb = [b for b in enc.names if z3.is_true(m.eval(enc.on[b]))]
        path = sorted(onb, key=lambda b: m.eval(enc.pos[b]).as_long())
    return str(r), other, path


def walk_ok(blocks, path):
    for a, b in zip(path, path[1:]):
        if b not in successors(blocks[a]["stmts"][-1], blocks): return False
    return path and path[0] == "bb0"


def main():
    ov, logdir = sys.argv[1], sys.argv[2]
    if z3 is None: fail(logdir, "z3 python module not available")
    t_start = time.time()
    env = dict(os.environ, CARGO_NET_OFFLINE="true")
    tdir = os.path.join(os.path.dirname(ov), "target-mir")
    # make sure rustc actually re-emits (cargo skips fresh crates)
    os.utime(os.path.join(ov, "src", "lib.rs"))
    r = subprocess.run(["cargo", "+nightly", "rustc", "--offline", "--lib", "--target-dir", tdir, "--", "-Zunpretty=mir",
                        "-C", "debug-assertions=off"], cwd=ov, env=env, stdout=subprocess.PIPE, stderr=subprocess.PIPE, text=True)
    mir = r.stdout
    open(os.path.join(logdir, "mir_dump.err"), "w").write(r.stderr[-20000:])
    if r.returncode != 0 or "fn queue::" not in mir:
        fail(logdir, "MIR dump failed (rc=%d)" % r.returncode)
    src = open(os.path.join(ov, "src", "queue.rs")).read()
    af = struct_fields(src, "AvailRing")
    if not af: fail(logdir, "struct AvailRing not found in src/queue.rs")
    names = [f[0] for f in af]
    if "idx" not in names or "ring" not in names: fail(logdir, "AvailRing has no idx/ring field")
    idx_f, ring_f = names.index("idx"), names.index("ring")
    fns = parse_functions(mir)
    if "add" not in fns: fail(logdir, "VirtQueue::add not found in the MIR dump")
    # fixpoint of call summaries
    summaries = {n: {"dev": False, "idx": False} for n in fns}
    events = {}
    for _ in range(len(fns) + 1):
        changed = False
        for n, blocks in fns.items():
            ev = analyse(blocks, idx_f, ring_f, summaries, n)
            events[n] = ev
            dev = any(k == "DEVSTORE" for es in ev.values() for (k, _, _, _) in es)
            idx = any(k == "IDXSTORE" for es in ev.values() for (k, _, _, _) in es)
            if dev != summaries[n]["dev"] or idx != summaries[n]["idx"]:
                summaries[n] = {"dev": dev, "idx": idx}; changed = True
        if not changed: break
    smt_dir = os.path.join(logdir, "smt"); os.makedirs(smt_dir, exist_ok=True)
    stats = {"queries": 0, "solver_s": 0.0}
    violations, results, disagreements = [], [], []

    def record(fn, q, what, res, other, path, evs):
        results.append({"function": fn, "query": q, "z3": res, "cvc5": other, "path": path})
        if other != "unavailable" and other != res:
            disagreements.append("%s/%s: z3=%s cvc5=%s" % (fn, q, res, other))
        if res == "sat":
            ok = walk_ok(fns[fn], path)
            rdir = os.path.join(VERIF, "replays", "C02"); os.makedirs(rdir, exist_ok=True)
            key = hashlib.sha256((fn + q + " ".join(path)).encode()).hexdigest()[:8]
            rp = os.path.join(rdir, "mir-%s-%s-%s.txt" % (fn, q, key))
            lines = ["property: C02", "engine: mir-order", "function: VirtQueue::%s" % fn, "violated: %s" % what,
                     "path re-checked by plain graph walk: %s" % ok, "block path: " + " -> ".join(path), ""]
            for b in path:
                for (k, d, i, l) in evs.get(b, []):
                    lines.append("  %s stmt %d  %-9s %-14s %s" % (b, i, k, d, l))
            open(rp, "w").write("\n".join(lines) + "\n")
            if ok:
                violations.append({"what": "VirtQueue::%s: %s" % (fn, what), "func": fn, "file": "src/queue.rs", "replay": rp})
            else:
                disagreements.append("%s/%s: sat path does not replay on the CFG" % (fn, q))
        elif res != "unsat":
            disagreements.append("%s/%s: solver answered %s" % (fn, q, res))

    # ---- queries on add
    blocks = fns["add"]; ev = events["add"]; enc = PathEnc(blocks)
    idxs = [(b, i, d) for b, es in ev.items() for (k, d, i, l) in es if k == "IDXSTORE" and b in enc.on]
    devs = [(b, i, d) for b, es in ev.items() for (k, d, i, l) in es if k == "DEVSTORE" and b in enc.on]
    fences = [(b, i, d) for b, es in ev.items() for (k, d, i, l) in es if k == "FENCE" and b in enc.on]
    rings = [(b, i, d) for (b, i, d) in devs if d == "avail.ring"]
    sanity = {"add_idx_stores": len(idxs), "add_dev_stores": len(devs), "add_fences": len(fences), "add_ring_stores": len(rings),
              "avail_idx_field": idx_f, "avail_ring_field": ring_f}
    if not idxs or not devs:
        fail(logdir, "encoding does not recognise the publication code in add(): %s" % sanity)
    q1 = z3.Or([enc.before(ib, ii, db, di) for (ib, ii, _) in idxs for (db, di, _) in devs])
    res, other, path = solve(enc, [q1], True, "add_q1", smt_dir, stats)
    record("add", "Q1", "a device-visible store follows the available-index store", res, other, path, ev)
    strong_f = [(b, i) for (b, i, d) in fences if d in REL_OK]
    bad = []
    for (ib, ii, io) in idxs:
        if io in REL_OK or io.startswith("call:"):
            continue
        for (db, di, _) in devs:
            between = [z3.And(enc.before(db, di, fb, fi), enc.before(fb, fi, ib, ii)) for (fb, fi) in strong_f]
            bad.append(z3.And(enc.before(db, di, ib, ii), z3.Not(z3.Or(between)) if between else True))
    q2 = z3.Or(bad) if bad else z3.BoolVal(False)
    res, other, path = solve(enc, [q2], True, "add_q2", smt_dir, stats)
    record("add", "Q2", "no fence >= Release (and no Release store) between a device-visible store and the index store", res, other, path, ev)
    q3 = z3.Or([z3.And(enc.on[ib], z3.Not(z3.Or([enc.before(rb, ri, ib, ii) for (rb, ri, _) in rings])) if rings else True) for (ib, ii, _) in idxs])
    res, other, path = solve(enc, [q3], True, "add_q3", smt_dir, stats)
    record("add", "Q3", "the index store is reachable without a preceding store to the available ring slot", res, other, path, ev)
    pairs = [(a, b) for a in idxs for b in idxs if a < b]
    q4 = z3.Or([z3.And(enc.on[a[0]], enc.on[b[0]]) for a, b in pairs]) if pairs else z3.BoolVal(False)
    res, other, path = solve(enc, [q4], True, "add_q4", smt_dir, stats)
    record("add", "Q4", "more than one index store on one path", res, other, path, ev)
    # ---- Q5 on every other method
    for n, blocks in sorted(fns.items()):
        if n in ("add", "new"): continue
        ev = events[n]; enc = PathEnc(blocks)
        idxs_n = [(b, i, d) for b, es in ev.items() for (k, d, i, l) in es if k == "IDXSTORE" and b in enc.on and d != "call:add"]
        q5 = z3.Or([enc.on[b] for (b, i, d) in idxs_n]) if idxs_n else z3.BoolVal(False)
        res, other, path = solve(enc, [q5], False, "%s_q5" % n, smt_dir, stats)
        record(n, "Q5", "a method other than add() stores to the available index", res, other, path, ev)

    status = "violation" if violations else ("error" if disagreements else "ok")
    out = {"status": status, "queries": stats["queries"], "solver_s": round(stats["solver_s"], 2), "violations": violations,
           "results": results, "sanity": sanity, "functions": sorted(fns), "summaries": summaries,
           "error": "; ".join(disagreements) if disagreements else None, "wall_s": round(time.time() - t_start, 1),
           "bounds": "each basic block at most once per path (add/set_dev_notify/write_desc/pop_used are loop-free; for methods with loops only reachability of an index store is asked); unwind edges ignored",
           "events_in_add": {b: [(k, d, i) for (k, d, i, l) in es] for b, es in events["add"].items() if es}}
    json.dump(out, open(os.path.join(logdir, "mir_order.json"), "w"), indent=1)
    print("mir-order: %s, %d queries, %s" % (status, stats["queries"], sanity))


if __name__ == "__main__":
    main()
